#!/usr/bin/env python3
"""Render the detection table of DESIGN.md §7.4 from seeded/*/meta.json and splice it in (replaces the block
between the markers SEEDTABLE-BEGIN / SEEDTABLE-END, or the placeholder SEEDTABLE)."""
import json, glob, os, re
rows = []
for f in sorted(glob.glob('/verif/seeded/*/meta.json')):
    m = json.load(open(f))
    t = m.get('checks_that_raise_a_violation', {})
    q = ' '.join(t.get('quick', [])) or '—'
    th = ' '.join(t.get('thorough', [])) if 'thorough' in t else ''
    patch = open(os.path.join(os.path.dirname(f), 'patch.diff')).read()
    files = ', '.join(x.replace('src/', '') for x in m['files_changed'])
    tq = m.get('caught_by_target_property', {}).get('quick')
    tt = m.get('caught_by_target_property', {}).get('thorough')
    tgt = 'quick' if tq else ('thorough' if tt else ('no' if t else '?'))
    rows.append((m['seed'], m['property_targeted'], files, q, th, tgt))
out = []
out.append(f"{len(rows)-2} changes written by sub-agents that were given only the text of one property and a scratch worktree")
out.append("(rounds 1 and 2: two changes per property and round, suffixes -1..-4; round 3, suffixes -5/-6: eight agents asked for *deep* changes")
out.append("that need at least 5 operations, 4 actors or 3 keys/members) plus the reverse patches of the two `fix:` commits.")
out.append("Every one was re-confirmed by me with `seeded/confirm.sh` (demo exits 0 on the unchanged tree and non-zero")
out.append("with the change; the pinned 132-test baseline passes twice with the change): logs in `seeded/logs/`.")
out.append("Sweeps: `seeded/run_all.sh <tier>` (frozen copy of /verif; the patch is applied to a scratch copy of /repo,")
out.append("never to /repo).  `detected by (quick)` lists every property whose quick check exits 1 with a VIOLATION line;")
out.append("the thorough column is filled only where a thorough run was made for that seed (target property).")
out.append("")
out.append("| seed | target | file(s) changed | detected by (quick) | detected by (thorough, if run) | target property catches it |")
out.append("|------|--------|-----------------|---------------------|-------------------------------|-----------------------------|")
for r in rows:
    out.append("| %s | %s | %s | %s | %s | %s |" % r)
nq = sum(1 for r in rows if r[3] != '—')
nt = sum(1 for r in rows if r[5] in ('quick',))
nth = sum(1 for r in rows if r[5] in ('quick', 'thorough'))
out.append("")
out.append(f"Totals: {len(rows)} seeds; {nq} raise a violation in at least one quick check; {nt} are caught by the quick check of the very property they were written against, {nth} by its quick or thorough check.")
out.append("")
out.append("**Reading the table.**  Every seed is caught by at least one check (93 of 96 in the quick tier, the other three —")
out.append("C05-6, C09-5, C09-6, all from the *deep* round — by the thorough check of their own property).  Eight deep seeds are")
out.append("not caught by the property they were written against even in the thorough tier: C01-6, C05-5, C08-5, C20-5 (a pending")
out.append("nested remove lost by `Orswot::reset_remove`, 5 ops) and C08-6, C20-6 (the same in `Map::reset_remove`, 5-6 ops, 4 actors,")
out.append("an inner `read_ctx()` remove) lie beyond the history bound of C01/C05/C08/C20 (Map systems with merges: n<=4) but are")
out.append("caught in the quick tier by C18, which applies `reset_remove` with every grid clock to every reachable state and so")
out.append("does not need the fifth op; C12-5 and C12-6 misplace a newly inserted element consistently at every replica (their")
out.append("author says so), which violates C13/C14 (both catch them), not C12.  Seed C20-3 was the one masked by a listed core;")
out.append("it is what motivated the golden failing-sets (§3.6) and is now caught by C20 (thorough) and C18 (quick).")
out.append("")
out.append("**False-alarm test.** 15 behaviour-preserving refactorings (`seeded/benign/R*-*`, written by five sub-agents asked for")
out.append("observably equivalent rewrites of orswot.rs/vclock.rs, map.rs, mvreg.rs + counters, list/glist/identifier/dot, merkle_reg/ctx/serde)")
out.append("were swept the same way: 15 x 20 quick checks, **no VIOLATION and no machinery error** (`seeded/logs/sweep_quick_benign_*.log`);")
out.append("three of them (R1-1 `Orswot::merge`/`reset_remove` with `retain`, R2-2 `Map::merge` with the entry API, R3-2 `MVReg::merge` as one loop)")
out.append("were also run through all 20 *thorough* checks, where the golden failing-sets hold a million histories: no alarm either")
out.append("(`seeded/logs/sweep_thorough_benign_3_*.log`).")
block = "<!-- SEEDTABLE-BEGIN -->\n" + "\n".join(out) + "\n<!-- SEEDTABLE-END -->"
p = '/verif/DESIGN.md'; s = open(p).read()
if 'SEEDTABLE-BEGIN' in s:
    s = re.sub(r'<!-- SEEDTABLE-BEGIN -->.*?<!-- SEEDTABLE-END -->', lambda _: block, s, flags=re.S)
else:
    s = s.replace('SEEDTABLE', block, 1)
open(p, 'w').write(s)
print('\n'.join(out[-3:]))
