#!/usr/bin/env python3
"""Render the detection table of DESIGN.md §7.4 from seeded/*/meta.json and splice it in (replaces the block
between the markers SEEDTABLE-BEGIN / SEEDTABLE-END, or the placeholder SEEDTABLE)."""
import json, glob, os, re
rows = []
for f in sorted(glob.glob('/verif/seeded/*/meta.json')):
    m = json.load(open(f))
    t = m.get('checks_that_raise_a_violation', {})
    q = ' '.join(t.get('quick', [])) or '—'
    th = ' '.join(t.get('thorough', [])) if 'thorough' in t else ''
    patch = open(os.path.join(os.path.dirname(f), 'patch.diff')).read()
    files = ', '.join(x.replace('src/', '') for x in m['files_changed'])
    tq = m.get('caught_by_target_property', {}).get('quick')
    tt = m.get('caught_by_target_property', {}).get('thorough')
    tgt = 'quick' if tq else ('thorough' if tt else ('no' if t else '?'))
    rows.append((m['seed'], m['property_targeted'], files, q, th, tgt))
out = []
out.append(f"{len(rows)-2} changes written by sub-agents that were given only the text of one property and a scratch worktree")
out.append("(two rounds, two changes per property and round) plus the reverse patches of the two `fix:` commits.")
out.append("Every one was re-confirmed by me with `seeded/confirm.sh` (demo exits 0 on the unchanged tree and non-zero")
out.append("with the change; the pinned 132-test baseline passes twice with the change): logs in `seeded/logs/`.")
out.append("Sweeps: `seeded/run_all.sh <tier>` (frozen copy of /verif; the patch is applied to a scratch copy of /repo,")
out.append("never to /repo).  `detected by (quick)` lists every property whose quick check exits 1 with a VIOLATION line;")
out.append("the thorough column is filled only where a thorough run was made for that seed (target property).")
out.append("")
out.append("| seed | target | file(s) changed | detected by (quick) | detected by (thorough, if run) | target property catches it |")
out.append("|------|--------|-----------------|---------------------|-------------------------------|-----------------------------|")
for r in rows:
    out.append("| %s | %s | %s | %s | %s | %s |" % r)
nq = sum(1 for r in rows if r[3] != '—')
nt = sum(1 for r in rows if r[5] in ('quick',))
nth = sum(1 for r in rows if r[5] in ('quick', 'thorough'))
out.append("")
out.append(f"Totals: {len(rows)} seeds; {nq} raise a violation in at least one quick check; {nt} are caught by the quick check of the very property they were written against, {nth} by its quick or thorough check.")
out.append("")
out.append("**False-alarm test.** 15 behaviour-preserving refactorings (`seeded/benign/R*-*`, written by five sub-agents asked for")
out.append("observably equivalent rewrites of orswot.rs/vclock.rs, map.rs, mvreg.rs + counters, list/glist/identifier/dot, merkle_reg/ctx/serde)")
out.append("were swept the same way: 15 x 20 quick checks, **no VIOLATION and no machinery error** (`seeded/logs/sweep_quick_benign_*.log`).")
block = "<!-- SEEDTABLE-BEGIN -->\n" + "\n".join(out) + "\n<!-- SEEDTABLE-END -->"
p = '/verif/DESIGN.md'; s = open(p).read()
if 'SEEDTABLE-BEGIN' in s:
    s = re.sub(r'<!-- SEEDTABLE-BEGIN -->.*?<!-- SEEDTABLE-END -->', lambda _: block, s, flags=re.S)
else:
    s = s.replace('SEEDTABLE', block, 1)
open(p, 'w').write(s)
print('\n'.join(out[-3:]))
