#!/usr/bin/env python3
"""Render the detection table of DESIGN.md §7.4 from seeded/*/meta.json and splice it in (replaces the block
between the markers SEEDTABLE-BEGIN / SEEDTABLE-END, or the placeholder SEEDTABLE)."""
import json, glob, os, re
rows = []
for f in sorted(glob.glob('/verif/seeded/*/meta.json')):
    m = json.load(open(f))
    t = m.get('checks_that_raise_a_violation', {})
    q = ' '.join(t.get('quick', [])) or '—'
    th = ' '.join(t.get('thorough', [])) if 'thorough' in t else ''
    patch = open(os.path.join(os.path.dirname(f), 'patch.diff')).read()
    files = ', '.join(x.replace('src/', '') for x in m['files_changed'])
    tq = m.get('caught_by_target_property', {}).get('quick')
    tt = m.get('caught_by_target_property', {}).get('thorough')
    tgt = 'quick' if tq else ('thorough' if tt else ('no' if t else '?'))
    rows.append((m['seed'], m['property_targeted'], files, q, th, tgt))
out = []
out.append(f"{len(rows)-2} changes written by sub-agents that were given only the text of one property and a scratch worktree")
out.append("(rounds 1 and 2: two changes per property and round, suffixes -1..-4; round 3, suffixes -5/-6 of C01, C03, C05, C08, C09, C12, C20:")
out.append("eight agents asked for *deep* changes that need at least 5 operations, 4 actors or 3 keys/members; round 4, second session,")
out.append("the 28 seeds that carry a `round` file - C02, C04, C06, C07 (three), C10, C11, C13-C19 with suffixes -5/-6 and C12-7: fourteen agents")
out.append("asked for deep changes again, also accepting a particular interleaving, merge order, save point or unusual legal input)")
out.append("plus the reverse patches of the two `fix:` commits.")
out.append("Every one was re-confirmed by me with `seeded/confirm.sh` (demo exits 0 on the unchanged tree and non-zero")
out.append("with the change; the pinned 132-test baseline passes twice with the change): logs in `seeded/logs/`.")
out.append("Sweeps: `seeded/run_all.sh <tier>` / `seeded/run_par.sh <tier> <workers> <seeds>` (frozen copy of /verif; the patch is applied to a")
out.append("scratch copy of /repo, never to /repo).  `detected by (quick)` lists every property whose quick check exits 1 with a VIOLATION line;")
out.append("the thorough column is filled only where a thorough run was made for that seed (target property).")
out.append("")
out.append("| seed | target | file(s) changed | detected by (quick) | detected by (thorough, if run) | target property catches it |")
out.append("|------|--------|-----------------|---------------------|-------------------------------|-----------------------------|")
for r in rows:
    out.append("| %s | %s | %s | %s | %s | %s |" % r)
nq = sum(1 for r in rows if r[3] != '—')
nt = sum(1 for r in rows if r[5] in ('quick',))
nth = sum(1 for r in rows if r[5] in ('quick', 'thorough'))
out.append("")
out.append(f"Totals: {len(rows)} seeds; {nq} raise a violation in at least one quick check; {nt} are caught by the quick check of the very property they were written against, {nth} by its quick or thorough check.")
out.append("")
missed_q = [r[0] for r in rows if r[3] == '—']
not_target = [r[0] for r in rows if r[5] not in ('quick', 'thorough')]
out.append("**Reading the table.**  Every seed is caught by at least one check; not caught in the quick tier by any check: " + (', '.join(missed_q) or 'none') + " (caught by the")
out.append("thorough check of their own property).  Not caught by the property they were written against in either tier: " + (', '.join(not_target) or 'none') + ".")
out.append("Of these, C08-6 and C20-6 (a pending key remove lost by the *nested* `Map::reset_remove`, 5-6 ops, 4 actors, an inner `read_ctx()` remove) lie beyond")
out.append("the bounds of C08/C20 on M-M-OR (n<=4) and are caught in the quick tier by C18, which applies `reset_remove` with every grid clock to every")
out.append("reachable state and so does not need the fifth op; C12-5 and C12-6 misplace a newly inserted element consistently at every replica (their")
out.append("author says so), which violates C13/C14 (both catch them), not C12.  The Orswot-side variants of the lost pending remove (C01-6, C05-5, C08-5,")
out.append("C20-5) were in that list after the first session; the 5-op full-alphabet and nested-`add_all` configurations of the second session (thorough tier)")
out.append("were added for them - see the thorough column.  Seed C20-3 was the one masked by a listed core;")
out.append("it is what motivated the golden failing-sets (§3.6) and is now caught by C20 (thorough) and C18 (quick).")
out.append("Round 4: the first sweep (before any strengthening) missed two of the 28 new seeds in the quick tier - C14-5 (`between` descending under the")
out.append("*last* node of `high` instead of the node right below the fork: the quick depth-3 sub-grid had no rational a whole unit away; widened) and C17-5")
out.append("(`Map::validate_merge` gated on the *map* clocks: needs 5 ops with one key; the one-key 5-op misuse configuration is now in both tiers) - and C11-6")
out.append("(a carry weighted `u64::MAX` instead of 2^64 in `GCounter::read`) was caught only because the 2^63-step alphabet had been added while the agents were")
out.append("still writing (it would have been missed by the first-session alphabets, whose steps are 1 and 2).  `seeded/logs/sweep_quick_round4_first.log`")
out.append("is that first sweep, `sweep_quick_round4_final.log` the sweep at the final harness.")
out.append("")
out.append("**False-alarm test.** 15 behaviour-preserving refactorings (`seeded/benign/R*-*`, written by five sub-agents asked for")
out.append("observably equivalent rewrites of orswot.rs/vclock.rs, map.rs, mvreg.rs + counters, list/glist/identifier/dot, merkle_reg/ctx/serde)")
out.append("were swept the same way: 15 x 20 quick checks, **no VIOLATION and no machinery error** (`seeded/logs/sweep_quick_benign_*.log`);")
out.append("three of them (R1-1 `Orswot::merge`/`reset_remove` with `retain`, R2-2 `Map::merge` with the entry API, R3-2 `MVReg::merge` as one loop)")
out.append("were also run through all 20 *thorough* checks, where the golden failing-sets hold a million histories: no alarm either")
out.append("(`seeded/logs/sweep_thorough_benign_3_*.log`).  Second session: the four quick checks that gained configurations (C02, C11, C14, C17) were run")
out.append("against all 15 refactorings again: no alarm (`seeded/logs/sweep_quick_benign_session2_C02_C11_C14_C17.log`).")
block = "<!-- SEEDTABLE-BEGIN -->\n" + "\n".join(out) + "\n<!-- SEEDTABLE-END -->"
p = '/verif/DESIGN.md'; s = open(p).read()
if 'SEEDTABLE-BEGIN' in s:
    s = re.sub(r'<!-- SEEDTABLE-BEGIN -->.*?<!-- SEEDTABLE-END -->', lambda _: block, s, flags=re.S)
else:
    s = s.replace('SEEDTABLE', block, 1)
open(p, 'w').write(s)
print('\n'.join(out[-3:]))
