#!/usr/bin/env python3
"""List the unmatched failure cores written by the checks (replays/<ID>/unmatched-<tier>.json), grouped by
property/system/kind, with structural predicates used for hand attribution to a root cause (DESIGN.md §2)."""
import json, glob, sys, collections

def parse(core):
    ops = []
    for part in core.strip(';').split(';'):
        a, cmd, vis, var = part.split(':')
        k, x, y = (int(t) for t in cmd.split('.'))
        ops.append(dict(actor=int(a[1:]), k=k, x=x, y=y, vis=int(vis[1:], 16), variant=int(var)))
    return ops

def predicates(system, ops):
    """structural facts about a core"""
    p = []
    n = len(ops)
    if system == 'map_mvreg':
        UP = 0
        for i, o in enumerate(ops):
            if o['k'] == UP and any(ops[j]['k'] == UP and ops[j]['x'] != o['x'] for j in range(i) if o['vis'] >> j & 1):
                p.append('cross-key-observation')   # RC1: a register write whose context contains another key's dot
                break
    if system in ('map_orswot', 'map_map_orswot', 'map_mvreg'):
        rm_kinds = {'map_orswot': (2, 3), 'map_map_orswot': (3,), 'map_mvreg': (1, 2)}[system]
        for r, o in enumerate(ops):
            if o['k'] in rm_kinds:
                key = o['x']
                for a in range(n):
                    for b in range(a + 1, n):
                        if ops[a]['actor'] == ops[b]['actor'] and ops[a]['k'] not in rm_kinds and ops[b]['k'] not in rm_kinds and ops[a]['x'] == key and ops[b]['x'] == key:
                            if o['vis'] >> a & 1 and not (o['vis'] >> b & 1) and b != r:
                                p.append('same-actor-twice-remove-saw-first-only')   # RC2
        nested_rm = {'map_orswot': (1,), 'map_map_orswot': (1, 2)}.get(system, ())
        if any(o['k'] in nested_rm for o in ops) and any(o['k'] in rm_kinds for o in ops):
            p.append('nested-remove-and-key-remove')   # RC3 / RC7 shape
    return sorted(set(p))

def main():
    tier = sys.argv[1] if len(sys.argv) > 1 else 'thorough'
    groups = collections.OrderedDict()
    for f in sorted(glob.glob(f'/verif/replays/*/unmatched-{tier}.json')):
        prop = f.split('/')[-2]
        for u in json.load(open(f)):
            groups.setdefault((prop, u['system'], u['kind']), []).append(u)
    for (prop, system, kind), us in groups.items():
        seen = {}
        for u in us:
            seen.setdefault(u['core'], u)
        print(f"\n##### {prop} {system} {kind}: {len(seen)} distinct cores")
        for core, u in seen.items():
            ops = parse(core) if core != '[]' else []
            print(f"  core={core}  n={len(ops)} preds={predicates(system, ops)} job={u['job']} hist={u['histories']}")
            if '-v' in sys.argv:
                print(f"     {u['text']}\n     {u['detail'][:700]}")
if __name__ == '__main__':
    main()
