#!/usr/bin/env python3
"""Write /verif/seeded/<id>/meta.json for every seed from (a) my confirmation log lines (RESULT ...), (b) the
sweep log lines (SEED ... detected_by: ...), (c) the seed's own notes.md.  Usage:
   seed_meta.py --confirm <log>... --sweep <tier>=<log>..."""
import json, os, re, sys, glob

def main():
    confirm, sweeps = {}, {}
    args = sys.argv[1:]
    mode = None
    for a in args:
        if a in ('--confirm', '--sweep'):
            mode = a; continue
        if mode == '--confirm':
            for l in open(a):
                m = re.match(r'RESULT (\S+) demo_unchanged_exit=(\d+) demo_with_change_exit=(\d+) suite_132_passed_runs=(\d+)/(\d+)', l)
                if m:
                    confirm[m.group(1)] = dict(demo_exit_on_unchanged_tree=int(m.group(2)), demo_exit_with_change=int(m.group(3)), baseline_suite_132_passed_runs=f"{m.group(4)}/{m.group(5)}")
        elif mode == '--sweep':
            tier, path = a.split('=', 1)
            for l in open(path):
                m = re.match(r'SEED (\S+) tier=\S+ detected_by:(.*)', l)
                if m:
                    sweeps.setdefault(m.group(1), {})[tier] = m.group(2).split()
    for d in sorted(glob.glob('/verif/seeded/*/patch.diff')):
        sd = os.path.dirname(d); name = os.path.basename(sd)
        prop = name.split('-')[0] if name.startswith('C') else {'RC4a': 'C16', 'RC8': 'C18'}[name.split('-')[0]]
        notes = open(os.path.join(sd, 'notes.md')).read() if os.path.exists(os.path.join(sd, 'notes.md')) else ''
        files = sorted(set(re.findall(r'^\+\+\+ b/(\S+)', open(d).read(), re.M)))
        old = {}
        mp = os.path.join(sd, 'meta.json')
        if os.path.exists(mp):
            old = json.load(open(mp))
        meta = dict(
            seed=name, property_targeted=prop,
            origin=('reverse of a fix: commit in /repo' if name.startswith('RC') else 'independent sub-agent given only the text of the property and a scratch worktree (round %s)' % ('4 (second session): asked for deep changes - >= 5 ops, >= 4 actors, >= 3 keys/members, a particular interleaving / merge order / save point or an unusual legal input' if os.path.exists(os.path.join(sd, 'round')) else {'1': '1', '2': '1', '3': '2', '4': '2', '5': '3: asked for changes that need >= 5 ops or >= 4 actors or >= 3 keys/members', '6': '3: asked for changes that need >= 5 ops or >= 4 actors or >= 3 keys/members'}[name[-1]])),
            files_changed=files,
            what_it_needs_to_manifest=(' '.join(notes.split())[:1400] if notes else ''),
            confirmed_by_me=confirm.get(name, old.get('confirmed_by_me', {})),
            how_confirmed="seeded/confirm.sh in a scratch worktree of /repo: demo passes on the unchanged tree, patch applies and builds, demo fails with it, pinned baseline suite run twice with it",
            checks_that_raise_a_violation=dict(old.get('checks_that_raise_a_violation', {}), **sweeps.get(name, {})),
            how_run="seeded/run_all.sh / run_par.sh <tier>: frozen copy of /verif, patch applied to a scratch copy of /repo (VERIF_REPO), every check's command",
        )
        t = meta['checks_that_raise_a_violation']
        meta['caught_by_target_property'] = {tier: (prop in [x.split('(')[0] for x in v]) for tier, v in t.items()}
        json.dump(meta, open(mp, 'w'), indent=1)
    print('meta.json written for', len(glob.glob('/verif/seeded/*/meta.json')), 'seeds')
if __name__ == '__main__':
    main()
