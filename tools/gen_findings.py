#!/usr/bin/env python3
"""Build /verif/known_findings.json from the unmatched cores the checks wrote on the UNCHANGED tree
(replays/<ID>/unmatched-<tier>.json), attributing each core to a root cause of DESIGN.md §2 by a
structural predicate.  Cores that satisfy no predicate are printed as UNATTRIBUTED and are NOT added:
they must be examined by hand (they are either a new defect or a false alarm of the machinery).

This tool is run by hand when the list is (re)generated; the checks never write known_findings.json."""
import json, glob, sys, collections, os

V = '/verif'

def parse(core):
    ops = []
    if core in ('*', '[]'):
        return ops
    for part in core.strip(';').split(';'):
        a, cmd, vis, var = part.split(':')
        k, x, y = (int(t) for t in cmd.split('.'))
        ops.append(dict(actor=int(a[1:]), k=k, x=x, y=y, vis=int(vis[1:], 16), variant=int(var)))
    return ops

# per system: which command kinds are map updates (consume a dot on key x) / key removes / nested removes
SYS = {
    'map_mvreg':      dict(up=(0,), keyrm=(1, 2), nestedrm=()),
    'map_orswot':     dict(up=(0, 1, 4), keyrm=(2, 3), nestedrm=(1,)),
    'map_map_orswot': dict(up=(0, 1, 2, 4), keyrm=(3, 5), nestedrm=(1, 2, 4)),
}

def multi_dot_context(system, ops):
    """RC1: some register write was made after its author had seen another update (of any key), so the
    value's hidden write context holds more than the write's own dot"""
    if system != 'map_mvreg':
        return False
    for i, o in enumerate(ops):
        if o['k'] == 0 and any(ops[j]['k'] == 0 for j in range(i) if o['vis'] >> j & 1):
            return True
    return False

def same_actor_twice(system, ops):
    """RC2: one actor updates the same key twice (a before b) and some remove on that key (key remove or
    nested remove) observed a but not b: the entry clock {actor: b} hides that a was deleted"""
    s = SYS.get(system)
    if not s:
        return False
    n = len(ops)
    for a in range(n):
        for b in range(a + 1, n):
            if ops[a]['actor'] == ops[b]['actor'] and ops[a]['k'] in s['up'] and ops[b]['k'] in s['up'] and ops[a]['x'] == ops[b]['x']:
                for r in range(n):
                    if r in (a, b):
                        continue
                    o = ops[r]
                    if (o['k'] in s['keyrm'] or o['k'] in s['nestedrm']) and o['x'] == ops[a]['x'] and o['vis'] >> a & 1 and not (o['vis'] >> b & 1):
                        return True
    return False

def nested_and_key_remove(system, ops):
    s = SYS.get(system)
    if not s:
        return False
    return any(o['k'] in s['nestedrm'] for o in ops) and any(o['k'] in s['keyrm'] for o in ops)

WHAT = {
    'RC1': "Map<_,MVReg>: a register value carries its whole causal context (Map hands the full map clock to MVReg::write) and MVReg::reset_remove treats it as a set of witness dots: key removes and merges subtract the observed dots from it, so a surviving value's context is truncated - it no longer dominates the writes it had overwritten and is no longer recognised as the same write: removed/superseded values survive or are duplicated, equal-knowledge states differ, MVReg::eq's sanity assert fires",
    'RC2': "Map::merge computes deleted information from compressed entry clocks: when an actor updated a key again after a peer removed (or nested-removed) what it had seen of the actor's earlier update, a merge keeps the removed nested data although op delivery drops it",
    'RC3': "a nested remove applied to a fresh nested value (the entry was removed and re-created, or the remove overtook) stays deferred inside that value for ever, although every update it observed has arrived",
    'RC4b': "nested Orswot/Map values validate an op's dot against their own clock, which only sees dots routed to that key: Map::validate_op returns Value(SourceOrder..) for an in-order op on a second key",
    'RC5': "Orswot::validate_merge reports DoubleSpentDot for the library's own add_all (one dot legitimately witnesses several members)",
    'RC6': "states holding a pending (deferred) remove cannot be serialised with serde_json: the deferred table is a map keyed by a VClock ('key must be a string')",
    'RC9': "Map::validate_merge descends into the nested values of a common key only when the two entry clocks are concurrent; when one actor id was used at two replicas the entry clocks are typically equal or ordered, so a dot that witnesses different nested members on the two sides is not flagged (the merge then silently drops both)",
    'RC7': "under per-actor-FIFO but non-causal delivery a key remove that deletes an entry also deletes what an overtaken update still needed (pending nested removes stored inside the entry, or the fact that a register write had been superseded); the view is stale until the missing op arrives",
}

def no_merge_job(u):
    """the configuration explores op delivery only (its label ends in '<discipline> n<=k' without '+merge'): a failure
    there cannot be a merge defect (RC2)"""
    import re
    return re.search(r'(Fifo|Causal|Any) n<=\d+$', u.get('job', '')) is not None

def attribute(prop, u):
    system, kind, core = u['system'], u['kind'], u['core']
    ops = parse(core)
    if kind in ('ser-error-pending',):
        return 'RC6'
    if kind == 'false-reject-nested':
        return 'RC4b'
    if kind == 'missed-double-spend-nested-under-comparable-entry-clocks':
        return 'RC9'
    if kind == 'false-merge-reject-dot-shared-by-add-all':
        return 'RC5'
    if system == 'map_mvreg':
        if kind.endswith('hidden-state') or kind == 'state-neq-hidden':
            return 'RC1'
        if kind.endswith('noncausal') and any(o['k'] in SYS[system]['keyrm'] for o in ops):
            return 'RC7'
        if multi_dot_context(system, ops):
            return 'RC1'
    if system in SYS:
        if kind.endswith('noncausal') and any(o['k'] in SYS[system]['keyrm'] for o in ops):
            return 'RC7'
        if same_actor_twice(system, ops) and not no_merge_job(u):
            return 'RC2'
        if nested_and_key_remove(system, ops) or any(o['k'] in SYS[system]['nestedrm'] for o in ops):
            if kind.endswith('noncausal'):
                return 'RC7'
            if kind in ('residue', 'state-neq', 'not-canonical', 'dup-changes-state', 'stale-merge-changes-state'):
                return 'RC3'
    return None

SITE = {('RC5', 'false-merge-reject-dot-shared-by-add-all'), ('RC9', 'missed-double-spend-nested-under-comparable-entry-clocks'), ('RC6', 'ser-error-pending'), ('RC4b', 'false-reject-nested'), ('RC1', 'state-neq-hidden'), ('RC1', 'dup-changes-hidden-state'), ('RC1', 'stale-merge-changes-hidden-state')}

def write_golden(out):
    """Golden failing-sets: for every configuration family the exact failing histories (64-bit failure ids)
    of the unchanged tree, attributed to a finding through their core.  Written only from a learn run
    (replays/<ID>/failing-<tier>.json exist)."""
    import struct, shutil
    lookup = {}
    for f in out['findings']:
        for m in f['matchers']:
            lookup[(f['property'], m['system'], m['kind'], m['core'])] = f['id']
    gdir = f'{V}/golden'
    files = glob.glob(f'{V}/replays/*/failing-*.json')
    if not files:
        print('no learn dump: golden sets left untouched')
        return
    shutil.rmtree(gdir, ignore_errors=True)
    os.makedirs(gdir)
    per_prop = collections.defaultdict(lambda: collections.defaultdict(set))
    skipped = 0
    for fpath in files:
        prop = fpath.split('/')[-2]
        for job in json.load(open(fpath)):
            for fid, kind, core in job['entries']:
                fidn = lookup.get((prop, job['system'], kind, core))
                if fidn is None:
                    if (prop, job['system'], kind, '*') in lookup:
                        continue   # site-matched kinds never reach the golden check
                    skipped += 1
                    continue
                per_prop[prop][(job['family'], fidn)].add(int(fid, 16))
    total = 0
    for prop, sets in per_prop.items():
        idx, blob, off = [], b'', 0
        for (fam, fidn), ids in sorted(sets.items()):
            ids = sorted(ids)
            idx.append(dict(family=fam, finding=fidn, count=len(ids), offset=off))
            blob += struct.pack('<%dQ' % len(ids), *ids)
            off += len(ids)
        total += off
        json.dump(dict(comment="golden failing-set index: per configuration family and finding, 'count' 64-bit failure ids starting at entry 'offset' of the .bin file (little endian)", sets=idx), open(f'{gdir}/{prop}.json', 'w'), indent=1)
        open(f'{gdir}/{prop}.bin', 'wb').write(blob)
    print(f'golden failing-sets: {total} failing histories in {len(per_prop)} properties ({skipped} entries without a listed core skipped)')

def main():
    findings = collections.OrderedDict()
    unattributed = []
    for f in sorted(glob.glob(f'{V}/replays/*/unmatched-*.json')):
        prop = f.split('/')[-2]
        for u in json.load(open(f)):
            rc = attribute(prop, u)
            if rc is None:
                unattributed.append((prop, u))
                continue
            fid = f'{prop}-{rc}'
            fd = findings.setdefault(fid, dict(id=fid, property=prop, root_cause=rc, what_fails=WHAT[rc], matchers=[]))
            core = '*' if (rc, u['kind']) in SITE else u['core']
            m = dict(system=u['system'], kind=u['kind'], core=core)
            if core != '*':
                m['history'] = u['text']
                m['sigs'] = {}
            ex = [x for x in fd['matchers'] if x['system'] == m['system'] and x['kind'] == m['kind'] and x['core'] == m['core']]
            if not ex:
                fd['matchers'].append(m)
                ex = [m]
            if core != '*' and u.get('sig_key'):
                prev = ex[0].setdefault('sigs', {}).get(u['sig_key'])
                if prev is not None and prev != u['sig']:
                    print('WARNING: two signatures for', fid, core, u['sig_key'], prev, u['sig'])
                ex[0]['sigs'][u['sig_key']] = u['sig']
    old = {}
    p = f'{V}/known_findings.json'
    if os.path.exists(p):
        old = json.load(open(p))
    # site predicates (core "*") are never re-learned (a learn run keeps them active): carry them over
    for fd in old.get('findings', []):
        for m in fd['matchers']:
            if m['core'] == '*':
                cur = findings.setdefault(fd['id'], dict(id=fd['id'], property=fd['property'], root_cause=fd.get('root_cause'), what_fails=fd['what_fails'], matchers=[]))
                if not any(x['system'] == m['system'] and x['kind'] == m['kind'] and x['core'] == '*' for x in cur['matchers']):
                    cur['matchers'].append(m)
    # keep previously listed matchers (quick and thorough tiers are generated in separate runs)
    if '--fresh' not in sys.argv:
        for fd in old.get('findings', []):
            cur = findings.setdefault(fd['id'], dict(id=fd['id'], property=fd['property'], root_cause=fd.get('root_cause'), what_fails=fd['what_fails'], matchers=[]))
            for m in fd['matchers']:
                if not any(x['system'] == m['system'] and x['kind'] == m['kind'] and x['core'] == m['core'] for x in cur['matchers']):
                    cur['matchers'].append(m)
    out = dict(
        comment="Known findings: genuine defects of rust-crdt recorded rather than repaired (DESIGN.md §2, §7). A failure is matched only by (property, system, failure kind, exact canonical minimal history) or, for core '*', by a narrow site predicate encoded in the failure kind. Anything else is reported as a VIOLATION. The checks never modify this file.",
        findings=sorted(findings.values(), key=lambda f: f['id']),
        fixed=old.get('fixed', [
            "fixed: property=C16 64129d8 Map::validate_op rejected an actor's in-order update to a second key with SourceOrder (it checked dot continuity against the entry clock) - RC4a",
            "fixed: property=C18 f7d05e7 Orswot::reset_remove / Map::reset_remove lost a pending remove when two remove contexts became equal after the subtraction (HashMap collect overwrote one) - RC8",
        ]),
    )
    json.dump(out, open(p, 'w'), indent=1)
    write_golden(out)
    n = sum(len(f['matchers']) for f in out['findings'])
    print(f"wrote {p}: {len(out['findings'])} findings, {n} matchers")
    for f in out['findings']:
        print(f"  {f['id']}: {len(f['matchers'])} matchers")
    if unattributed:
        print(f"\nUNATTRIBUTED ({len(unattributed)}):")
        for prop, u in unattributed:
            print(f"  {prop} {u['system']} {u['kind']} core={u['core']} hist={u['histories']}\n     {u['text']}\n     {u['detail'][:500]}")

if __name__ == '__main__':
    main()
