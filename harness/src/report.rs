//! Known-finding classification, replay artefacts, evidence files, exit code (DESIGN.md §3.6, §3.10).

use crate::engine::Abs;
use crate::job::{JobOutcome, JobT};
use serde_json::{json, Value};
use std::collections::BTreeMap;
use std::path::PathBuf;

pub fn verif_dir() -> PathBuf {
    if let Ok(d) = std::env::var("VERIF_DIR") {
        return PathBuf::from(d);
    }
    PathBuf::from("/verif")
}

/// where evidence and replay artefacts go (mutation runs redirect them away from /verif)
pub fn out_dir() -> PathBuf {
    if let Ok(d) = std::env::var("VERIF_OUT") {
        return PathBuf::from(d);
    }
    verif_dir()
}

pub struct Matcher {
    pub system: String,
    pub kind: String,
    pub core: String,
    /// behavioural signatures of the core per (discipline, transition kinds); empty = not recorded
    pub sigs: BTreeMap<String, String>,
}
pub struct Finding {
    pub id: String,
    pub property: String,
    pub what_fails: String,
    pub matchers: Vec<Matcher>,
}

pub fn load_findings() -> Vec<Finding> {
    let p = verif_dir().join("known_findings.json");
    let txt = match std::fs::read_to_string(&p) {
        Ok(t) => t,
        Err(_) => return vec![],
    };
    let v: Value = serde_json::from_str(&txt).expect("known_findings.json is not valid JSON");
    let mut out = vec![];
    for f in v["findings"].as_array().cloned().unwrap_or_default() {
        out.push(Finding {
            id: f["id"].as_str().unwrap().to_string(),
            property: f["property"].as_str().unwrap().to_string(),
            what_fails: f["what_fails"].as_str().unwrap_or("").to_string(),
            matchers: f["matchers"]
                .as_array()
                .cloned()
                .unwrap_or_default()
                .iter()
                .map(|m| Matcher {
                    system: m["system"].as_str().unwrap().to_string(),
                    kind: m["kind"].as_str().unwrap().to_string(),
                    core: m["core"].as_str().unwrap().to_string(),
                    sigs: m["sigs"].as_object().map(|o| o.iter().map(|(k, v)| (k.clone(), v.as_str().unwrap_or("").to_string())).collect()).unwrap_or_default(),
                })
                .collect(),
        });
    }
    out
}

/// Golden failing-sets (DESIGN.md §3.6 "as built"): per configuration family the exact failing histories of
/// the unchanged tree (64-bit failure ids), each with the finding it is attributed to.
pub fn load_golden(prop: &str) -> std::collections::HashMap<String, std::collections::HashMap<u64, String>> {
    let mut out: std::collections::HashMap<String, std::collections::HashMap<u64, String>> = Default::default();
    let dir = verif_dir().join("golden");
    let idx = match std::fs::read_to_string(dir.join(format!("{}.json", prop))) {
        Ok(t) => t,
        Err(_) => return out,
    };
    let idx: Value = serde_json::from_str(&idx).expect("golden index is not valid JSON");
    let bin = std::fs::read(dir.join(format!("{}.bin", prop))).expect("golden .bin missing");
    for set in idx["sets"].as_array().cloned().unwrap_or_default() {
        let fam = set["family"].as_str().unwrap().to_string();
        let finding = set["finding"].as_str().unwrap().to_string();
        let (off, n) = (set["offset"].as_u64().unwrap() as usize, set["count"].as_u64().unwrap() as usize);
        let m = out.entry(fam).or_default();
        for i in 0..n {
            let b = &bin[(off + i) * 8..(off + i + 1) * 8];
            m.insert(u64::from_le_bytes(b.try_into().unwrap()), finding.clone());
        }
    }
    out
}

pub fn abs_to_json(abs: &[Abs]) -> Value {
    Value::Array(abs.iter().map(|a| json!({"author": a.author, "k": a.cmd.k, "x": a.cmd.x, "y": a.cmd.y, "vis": a.vis, "variant": a.variant})).collect())
}
pub fn abs_from_json(v: &Value) -> Vec<Abs> {
    v.as_array()
        .unwrap()
        .iter()
        .map(|a| Abs {
            author: a["author"].as_u64().unwrap() as u8,
            cmd: crate::engine::Cmd { k: a["k"].as_u64().unwrap() as u8, x: a["x"].as_u64().unwrap() as u8, y: a["y"].as_u64().unwrap() as u8 },
            vis: a["vis"].as_u64().unwrap() as u32,
            variant: a["variant"].as_u64().unwrap() as u8,
        })
        .collect()
}

pub struct Extra {
    /// engine-specific evidence (grid explorers)
    pub states: u64,
    pub transitions: u64,
    pub samples: Vec<Value>,
    pub detail: Value,
    pub violations: Vec<(String, String)>, // (kind, text) from non-lattice engines
    pub outcomes: u64,
}

pub struct Summary {
    pub exit: i32,
}

fn fnv(s: &str) -> u64 {
    let mut h: u64 = 0xcbf29ce484222325;
    for b in s.bytes() {
        h ^= b as u64;
        h = h.wrapping_mul(0x100000001b3);
    }
    h
}

#[allow(clippy::too_many_arguments)]
pub fn finish(prop: &str, tier: &str, seed: i64, jobs: &[Box<dyn JobT>], outcomes: &[JobOutcome], extra: Option<Extra>, wall_s: f64, level_note: &str) -> Summary {
    let findings = load_findings();
    let vd = out_dir();
    let replay_dir = vd.join("replays").join(prop);
    let _ = std::fs::create_dir_all(&replay_dir);
    let mut known: BTreeMap<String, (u64, u64, String)> = BTreeMap::new(); // id -> (cores, histories, what)
    let mut violations: Vec<String> = vec![];
    let mut unmatched: Vec<Value> = vec![];
    let mut machinery_error = false;
    for (ji, o) in outcomes.iter().enumerate() {
        // vacuity guards (DESIGN.md §3.7): the alphabet must still produce concurrency / pending removes
        // (only meaningful on a run without failures: a panicking subject aborts the exploration of whole subtrees)
        let clean = o.failing_histories == 0;
        if clean && o.cfg.n >= 2 && o.cfg.actors >= 2 && o.stats.conflicts == 0 {
            eprintln!("MACHINERY: vacuous exploration in {}: no history with concurrent ops", o.label);
            machinery_error = true;
        }
        if clean && o.cfg.n >= 2 && o.cfg.disc == crate::engine::Disc::Fifo && o.cfg.actors >= 2 && ["orswot", "map_mvreg", "map_orswot", "map_map_orswot"].contains(&o.system) && o.stats.pending_states == 0 {
            eprintln!("MACHINERY: vacuous exploration in {}: per-actor-FIFO delivery never produced a pending remove", o.label);
            machinery_error = true;
        }
        if clean && o.cfg.n >= 2 && o.stats.outcomes.len() < 2 && o.stats.checks > 0 && !o.label.contains("validate") && !o.label.contains("self-check") {
            eprintln!("MACHINERY: vacuous exploration in {}: a single distinct outcome", o.label);
            machinery_error = true;
        }
        if o.overflow {
            eprintln!("MACHINERY: state guard (64 states per knowledge set) hit in {} — exhaustiveness lost", o.label);
            machinery_error = true;
        }
        for (fid, n) in o.golden_hits.iter() {
            let what = findings.iter().find(|f| f.id == *fid).map(|f| f.what_fails.clone()).unwrap_or_default();
            let e = known.entry(fid.clone()).or_insert((0, 0, what));
            e.1 += n;
        }
        for c in o.cores.iter() {
            if c.kind == "explorer-self-check" {
                eprintln!("MACHINERY: explorer self-check failed in {}: {} ({})", o.label, c.example.detail, c.example_text);
                machinery_error = true;
                continue;
            }
            let mut hit = None;
            let (sig_key, sig) = if c.core_key == "*" { (String::new(), String::new()) } else { jobs[ji].signature(&c.core) };
            let mut sig_changed = false;
            for f in findings.iter().filter(|f| f.property == prop) {
                // with a golden failing-set only site predicates may still absorb a failure: every listed
                // failing history was already recognised by its id, so this one is new
                let learn = std::env::var("VERIF_LEARN").is_ok(); // learn runs: only site predicates absorb, every core is dumped
                for m in f.matchers.iter().filter(|m| m.system == o.system && m.kind == c.kind && (m.core == "*" || (m.core == c.core_key && !o.golden_used && !learn))) {
                    // a listed core must also still behave as recorded (same number of distinct states and reads
                    // per knowledge set, same failures): otherwise it fails *differently* and is reported
                    if m.core == "*" || m.sigs.is_empty() || m.sigs.get(&sig_key) == Some(&sig) {
                        hit = Some(f);
                    } else {
                        sig_changed = true;
                    }
                }
                if hit.is_some() {
                    break;
                }
            }
            match hit {
                Some(f) => {
                    let e = known.entry(f.id.clone()).or_insert((0, 0, f.what_fails.clone()));
                    e.0 += 1;
                    e.1 += c.histories;
                }
                None => {
                    // replay twice and insist on identical observations before reporting
                    let (t1, f1) = jobs[ji].replay(&c.core);
                    let (t2, f2) = jobs[ji].replay(&c.core);
                    let same = t1 == t2 && f1.len() == f2.len();
                    let name = format!("{}-{}-{:016x}.json", o.system, c.kind, fnv(&format!("{}{}{}", o.label, c.kind, c.core_key)));
                    let path = replay_dir.join(&name);
                    let rust = f1.iter().find(|f| f.kind == c.kind).and_then(|f| jobs[ji].rust_test(&c.core, f.mask, &f.kind, &f.detail));
                    if let Some(code) = &rust {
                        let _ = std::fs::write(replay_dir.join(name.replace(".json", ".rs")), code);
                    }
                    let rec = json!({
                        "property": prop, "tier": tier, "job": o.label, "system": o.system, "kind": c.kind,
                        "core_key": c.core_key, "core": abs_to_json(&c.core), "core_text": c.core_text,
                        "listed_core_behaves_differently": sig_changed, "signature": {"key": sig_key.clone(), "value": sig.clone()},
                        "example_history": abs_to_json(&c.example.hist), "example_text": c.example_text,
                        "example_detail": c.example.detail, "failing_histories_with_this_core": c.histories,
                        "standalone_rust_test": rust.as_ref().map(|_| name.replace(".json", ".rs")), "replay_of_core": t1, "replay_failure_details": f1.iter().map(|f| format!("{}: {}", f.kind, f.detail)).collect::<Vec<_>>(), "deterministic_replay": same,
                    });
                    let _ = std::fs::write(&path, serde_json::to_string_pretty(&rec).unwrap());
                    if !same {
                        // The harness owns every other choice (histories and schedules are enumerated, each history is
                        // evaluated sequentially), so two different replays of one history mean that the SUBJECT answers
                        // differently for the same calls (e.g. a result that depends on hash-map iteration order).  The
                        // failing execution was observed on the real code, so it is reported as a violation, with the
                        // reproduction rate of the core over further replays; only a core that never fails again is
                        // treated as a machinery problem.
                        let mut again = f1.iter().filter(|f| f.kind == c.kind).count().min(1) + f2.iter().filter(|f| f.kind == c.kind).count().min(1);
                        for _ in 0..6 {
                            let (_t, f) = jobs[ji].replay(&c.core);
                            again += f.iter().filter(|f| f.kind == c.kind).count().min(1);
                        }
                        eprintln!("NOTE: replays of {} differ between runs of the same history (the subject is nondeterministic for identical calls); the core failed in {} of 8 replays", path.display(), again);
                        if again == 0 {
                            eprintln!("MACHINERY: replay of {} never reproduces the failure", path.display());
                            machinery_error = true;
                        }
                    }
                    violations.push(format!("VIOLATION property={} replay={}", prop, path.display()));
                    unmatched.push(json!({"sig_key": sig_key, "sig": sig, "listed_core_behaves_differently": sig_changed, "system": o.system, "kind": c.kind, "core": c.core_key, "text": c.core_text, "detail": c.example.detail, "histories": c.histories, "job": o.label}));
                }
            }
        }
    }
    if let Some(x) = &extra {
        for (k, (kind, text)) in x.violations.iter().enumerate() {
            let name = format!("grid-{}-{:016x}.json", kind, fnv(text));
            let path = replay_dir.join(&name);
            let _ = std::fs::write(&path, serde_json::to_string_pretty(&json!({"property": prop, "kind": kind, "detail": text})).unwrap());
            if k < 50 {
                violations.push(format!("VIOLATION property={} replay={}", prop, path.display()));
            }
        }
    }
    if std::env::var("VERIF_LEARN").is_ok() {
        let dump: Vec<Value> = outcomes
            .iter()
            .map(|o| json!({"family": o.sig_key, "system": o.system, "entries": o.learned.iter().map(|(f, k, c)| json!([format!("{:016x}", f), k, c])).collect::<Vec<_>>()}))
            .collect();
        let _ = std::fs::write(replay_dir.join(format!("failing-{}.json", tier)), serde_json::to_string(&dump).unwrap());
    }
    if !unmatched.is_empty() {
        let _ = std::fs::write(replay_dir.join(format!("unmatched-{}.json", tier)), serde_json::to_string_pretty(&unmatched).unwrap());
    }
    // ---- evidence
    let mut states = 0u64;
    let mut transitions = 0u64;
    let mut histories = 0u64;
    let mut ksets = 0u64;
    let mut outcomes_n = 0u64;
    let mut checks = 0u64;
    let mut schedules = 0u64;
    let mut samples: Vec<Value> = vec![];
    let mut jobs_json = vec![];
    for o in outcomes {
        states += o.stats.states;
        transitions += o.stats.transitions();
        histories += o.stats.histories;
        ksets += o.stats.knowledge_sets;
        outcomes_n += o.stats.outcomes.len() as u64;
        checks += o.stats.checks;
        schedules = schedules.saturating_add(o.stats.schedules);
        samples.extend(o.samples.iter().cloned());
        jobs_json.push(json!({
            "config": o.label, "system": o.system,
            "bounds": {"max_ops": o.cfg.n, "actors": o.cfg.actors, "discipline": format!("{:?}", o.cfg.disc), "merge_transitions": o.cfg.merge,
                       "alphabet_size": o.cfg.cmds.len(), "actor_symmetry_reduction": o.cfg.sym, "actor_map": o.cfg.actor_map},
            "histories": o.stats.histories, "knowledge_sets": o.stats.knowledge_sets, "states": o.stats.states,
            "apply_transitions": o.stats.applies, "merge_transitions": o.stats.merges, "oracle_transitions": o.stats.aux_transitions,
            "op_generations_through_api": o.stats.gens, "complete_delivery_schedules_represented": o.stats.schedules, "oracle_evaluations": o.stats.checks,
            "distinct_outcomes": o.stats.outcomes.len(), "histories_with_concurrent_ops": o.stats.conflicts,
            "states_with_pending_removes": o.stats.pending_states, "max_states_per_knowledge_set": o.stats.max_states_per_k,
            "failing_histories": o.failing_histories, "failure_cores": o.cores.len(), "completed": !o.overflow, "wall_s": o.wall_s,
        }));
    }
    if let Some(x) = &extra {
        states += x.states;
        transitions += x.transitions;
        samples.extend(x.samples.iter().cloned());
        outcomes_n += x.outcomes;
    }
    let exhaustive = !machinery_error;
    let nviol = violations.len();
    let ev = json!({
        "property_id": prop, "tier": tier, "seed": seed, "level": "model_checking",
        "coverage": {
            "states": states.max(1), "transitions": transitions.max(1),
            "traces_validated_against_impl": transitions,
            "samples": samples,
            "histories": histories, "knowledge_sets": ksets, "distinct_outcomes": outcomes_n, "oracle_evaluations": checks, "complete_delivery_schedules_represented": schedules,
            "exhaustive": exhaustive,
            "explanation": "explicit-state exploration of the real crate: every transition (apply / merge / duplicate / stale merge / restore / reset_remove) is a call into the implementation, so every explored trace is an implementation trace; states are deduplicated per knowledge set with the crate's own ==; all configurations below ran to completion (no iteration, branch or time cap)",
            "configurations": jobs_json,
            "engine_detail": extra.as_ref().map(|x| x.detail.clone()).unwrap_or(Value::Null),
            "known_findings_matched": known.iter().map(|(id, (c, h, _))| json!({"finding": id, "cores_or_site_predicates": c, "failing_histories": h})).collect::<Vec<_>>(),
            "golden_failing_set_used": outcomes.iter().any(|o| o.golden_used),
        },
        "assumptions": [level_note, "bounded scope: only histories within the listed bounds are covered", "states are identified by the crate's own PartialEq during deduplication; reads are compared independently"],
        "wall_s": wall_s,
        "violations": nviol,
    });
    let evdir = vd.join("evidence");
    let _ = std::fs::create_dir_all(&evdir);
    std::fs::write(evdir.join(format!("{}.json", prop)), serde_json::to_string_pretty(&ev).unwrap()).expect("cannot write evidence");

    for (id, (cores, hist, what)) in known.iter() {
        println!("KNOWN-FINDING: property={} {} {} (cores matched {}, failing histories {})", prop, id, what, cores, hist);
    }
    for v in violations.iter().take(40) {
        println!("{}", v);
    }
    if violations.len() > 40 {
        println!("... {} more violations (see {})", violations.len() - 40, replay_dir.display());
    }
    println!(
        "{} {}: histories={} knowledge_sets={} states={} transitions={} distinct_outcomes={} known_findings={} violations={} wall={:.1}s",
        prop, tier, histories, ksets, states, transitions, outcomes_n, known.len(), nviol, wall_s
    );
    let exit = if machinery_error {
        2
    } else if nviol > 0 {
        1
    } else {
        0
    };
    Summary { exit }
}
