mod checks;
mod engine;
mod grid;
mod job;
mod props;
mod report;
mod systems;

fn main() {
    engine::install_panic_hook();
    // anything that panics outside the guarded subject calls is a machinery failure, never a verdict
    if std::panic::catch_unwind(real_main).is_err() {
        let msg = engine::LAST_PANIC.with(|p| p.borrow().clone());
        eprintln!("MACHINERY: the harness itself panicked: {}", msg);
        std::process::exit(2);
    }
}

fn real_main() {
    let args: Vec<String> = std::env::args().collect();
    if args.len() < 2 {
        eprintln!("usage: vcheck <PROPERTY> --tier quick|thorough | vcheck replay <file>");
        std::process::exit(2);
    }
    let threads = std::env::var("VERIF_THREADS").ok().and_then(|s| s.parse().ok()).unwrap_or_else(|| std::thread::available_parallelism().map(|n| n.get()).unwrap_or(4));
    if args[1] == "replay" {
        let txt = std::fs::read_to_string(&args[2]).expect("cannot read replay file");
        let v: serde_json::Value = serde_json::from_str(&txt).expect("replay file is not JSON");
        let prop = v["property"].as_str().unwrap();
        let label = v["job"].as_str().unwrap_or("");
        let which = if args.len() > 3 && args[3] == "--example" { "example_history" } else { "core" };
        let abs = report::abs_from_json(&v[which]);
        for tier in ["quick", "thorough"] {
            for j in props::jobs(prop, tier) {
                if j.label() == label {
                    let (t1, f1) = j.replay(&abs);
                    let (t2, _f2) = j.replay(&abs);
                    println!("{}", t1);
                    println!("deterministic: {}", t1 == t2 && _f2.len() == f1.len());
                    std::process::exit(if f1.is_empty() { 0 } else { 1 });
                }
            }
        }
        eprintln!("job {:?} of property {} not found", label, prop);
        std::process::exit(2);
    }
    let prop = args[1].clone();
    let mut tier = "quick".to_string();
    let mut i = 2;
    while i < args.len() {
        if args[i] == "--tier" && i + 1 < args.len() {
            tier = args[i + 1].clone();
            i += 1;
        }
        i += 1;
    }
    if let Ok(t) = std::env::var("VERIF_TIER") {
        if t == "quick" || t == "thorough" {
            tier = t;
        }
    }
    let seed: i64 = std::env::var("VERIF_SEED").ok().and_then(|s| s.parse().ok()).unwrap_or(0);
    // wall-clock guard: a runaway (e.g. a mutated subject that loops) becomes exit 2, never a verdict and never a hang
    let cap_s: u64 = std::env::var("VERIF_WALL_CAP_S").ok().and_then(|s| s.parse().ok()).unwrap_or(if tier == "quick" { 1800 } else { 6 * 3600 });
    {
        let prop = prop.clone();
        std::thread::spawn(move || {
            std::thread::sleep(std::time::Duration::from_secs(cap_s));
            eprintln!("MACHINERY: {} exceeded the wall-clock guard of {} s; exhaustiveness lost, no verdict", prop, cap_s);
            std::process::exit(2);
        });
    }
    let t0 = std::time::Instant::now();
    let mut jobs = props::jobs(&prop, &tier);
    // development aid (never used by a registered command): run only the configurations whose label contains VERIF_ONLY
    if let Ok(only) = std::env::var("VERIF_ONLY") {
        jobs.retain(|j| j.label().contains(&only));
    }
    let extra = match prop.as_str() {
        "C10" => Some(grid::vclock_grid(tier == "quick")),
        "C14" => Some(grid::identifier_grid(tier == "quick")),
        _ => None,
    };
    if jobs.is_empty() && extra.is_none() {
        eprintln!("unknown property {}", prop);
        std::process::exit(2);
    }
    let mut outcomes = vec![];
    let findings = report::load_findings();
    let golden = report::load_golden(&prop);
    for j in jobs.iter() {
        // failure kinds that a listed finding classifies by site predicate (core "*") for this property and system
        let site_kinds: std::collections::HashSet<String> = findings.iter().filter(|f| f.property == prop).flat_map(|f| f.matchers.iter()).filter(|m| m.core == "*" && m.system == j.system()).map(|m| m.kind.clone()).collect();
        let known: std::collections::HashSet<(String, String)> = findings.iter().filter(|f| f.property == prop).flat_map(|f| f.matchers.iter()).filter(|m| m.system == j.system()).map(|m| (m.kind.clone(), m.core.clone())).collect();
        let o = j.run(threads, &site_kinds, &known, golden.get(&j.family()));
        eprintln!(
            "  [{}] {} / {}: histories={} states={} applies={} merges={} aux={} outcomes={} failing_histories={} cores={} {:.1}s",
            prop, o.system, o.label, o.stats.histories, o.stats.states, o.stats.applies, o.stats.merges, o.stats.aux_transitions, o.stats.outcomes.len(), o.failing_histories, o.cores.len(), o.wall_s
        );
        outcomes.push(o);
    }
    let s = report::finish(&prop, &tier, seed, &jobs, &outcomes, extra, t0.elapsed().as_secs_f64(), "the harness's reference models and the abstract-history generator are trusted");
    std::process::exit(s.exit);
}
