//! Per-property configurations (DESIGN.md §4).  A tier is a list of configurations, each enumerated to
//! completion, smallest first.
use crate::checks::*;
use crate::engine::*;
use crate::job::*;
use crate::systems::map_mv::{self as mm, MapMv};
use crate::systems::map_or::{self as mo, MapOr};
use crate::systems::map_map::{self as m2, MapMap};
use crate::systems::mvreg::{self as mv, Mv};
use crate::systems::orswot::{self as so, Or};
use crate::systems::glist::{self as gl, Gl};
use crate::systems::list::{self as li, Li};
use crate::systems::merkle::{self as mk, Mk};
use crate::systems::simple::{self as sp, Gc, Gs, Lww, Mn, Mx, Pn, Vc};

pub fn cfg(label: &str, n: usize, actors: u8, disc: Disc, merge: bool, cmds: Vec<Cmd>, sym: bool) -> Cfg {
    Cfg { label: label.to_string(), n, actors, disc, merge, cmds, sym, actor_map: vec![] }
}

/// Alphabets and calibrated bounds per system.  `n(q, heavy)`: max ops for the quick / thorough tier,
/// `heavy` = merge closure or an expensive per-state oracle is switched on.
pub trait Plan: Sys {
    fn alphabet() -> Vec<Cmd>;
    /// a narrower alphabet used to reach one more op
    fn narrow() -> Vec<Cmd> {
        Self::alphabet()
    }
    const ACTORS: u8 = 3;
    fn n(quick: bool, heavy: bool) -> usize;
    /// delivery discipline the type documents as sufficient
    const DISC: Disc;
    /// keep the actor-permutation symmetry reduction in the thorough tier too (sound for every type
    /// except List, whose tie-breaking depends on actor order; Orswot runs without it as a cross-check)
    const THOROUGH_SYM: bool = false;
}

impl Plan for Or {
    fn alphabet() -> Vec<Cmd> {
        vec![cmd(so::ADD, 0, 0), cmd(so::ADD, 1, 0), cmd(so::ADD_ALL, 0, 0), cmd(so::RM_CONTAINS, 0, 0), cmd(so::RM_CONTAINS, 1, 0), cmd(so::RM_READ, 0, 0), cmd(so::RM_ALL_READ, 0, 0)]
    }
    fn narrow() -> Vec<Cmd> {
        vec![cmd(so::ADD, 0, 0), cmd(so::RM_CONTAINS, 0, 0), cmd(so::ADD_ALL, 0, 0), cmd(so::RM_CONTAINS, 1, 0)]
    }
    fn n(_q: bool, _heavy: bool) -> usize {
        4
    }
    const DISC: Disc = Disc::Fifo;
}
impl Plan for Mv {
    fn alphabet() -> Vec<Cmd> {
        vec![cmd(mv::WRITE, 0, 0), cmd(mv::WRITE_SAME, 0, 0)]
    }
    fn narrow() -> Vec<Cmd> {
        vec![cmd(mv::WRITE, 0, 0)]
    }
    fn n(q: bool, _heavy: bool) -> usize {
        if q {
            4
        } else {
            5
        }
    }
    const DISC: Disc = Disc::Any;
}
impl Plan for MapMv {
    const THOROUGH_SYM: bool = true;
    fn alphabet() -> Vec<Cmd> {
        vec![cmd(mm::UP, 0, 0), cmd(mm::UP, 1, 0), cmd(mm::RM_GET, 0, 0), cmd(mm::RM_GET, 1, 0), cmd(mm::RM_CTX, 0, 0)]
    }
    fn narrow() -> Vec<Cmd> {
        vec![cmd(mm::UP, 0, 0), cmd(mm::UP, 1, 0), cmd(mm::RM_GET, 0, 0), cmd(mm::RM_GET, 1, 0)]
    }
    fn n(q: bool, heavy: bool) -> usize {
        match (q, heavy) {
            (true, true) => 3,
            (true, false) => 4,
            (false, _) => 4,
        }
    }
    const DISC: Disc = Disc::Fifo;
}
impl Plan for MapOr {
    const THOROUGH_SYM: bool = true;
    fn alphabet() -> Vec<Cmd> {
        vec![cmd(mo::ADD, 0, 0), cmd(mo::ADD, 0, 1), cmd(mo::RM_MEMBER, 0, 0), cmd(mo::RM_KEY, 0, 0), cmd(mo::ADD, 1, 0), cmd(mo::RM_KEY, 1, 0), cmd(mo::RM_KEY_CTX, 0, 0)]
    }
    fn narrow() -> Vec<Cmd> {
        vec![cmd(mo::ADD, 0, 0), cmd(mo::ADD, 0, 1), cmd(mo::RM_MEMBER, 0, 0), cmd(mo::RM_KEY, 0, 0)]
    }
    fn n(q: bool, heavy: bool) -> usize {
        if q && heavy {
            3
        } else {
            4
        }
    }
    const DISC: Disc = Disc::Fifo;
}

impl Plan for MapMap {
    const THOROUGH_SYM: bool = true;
    fn alphabet() -> Vec<Cmd> {
        vec![cmd(m2::ADD, 0, 0), cmd(m2::ADD, 0, 1), cmd(m2::RM_MEMBER, 0, 0), cmd(m2::RM_INNER, 0, 0), cmd(m2::RM_OUTER, 0, 0), cmd(m2::ADD, 0, 2), cmd(m2::ADD, 1, 0), cmd(m2::RM_INNER_CTX, 0, 1), cmd(m2::RM_OUTER_CTX, 0, 0)]
    }
    fn n(q: bool, heavy: bool) -> usize {
        if q && heavy {
            3
        } else {
            4
        }
    }
    const DISC: Disc = Disc::Fifo;
}
impl Plan for Vc {
    fn alphabet() -> Vec<Cmd> {
        vec![cmd(sp::INC, 0, 0)]
    }
    fn n(q: bool, heavy: bool) -> usize {
        match (q, heavy) {
            (true, _) => 4,
            (false, true) => 5,
            (false, false) => 6,
        }
    }
    const DISC: Disc = Disc::Any;
}
impl Plan for Gc {
    fn alphabet() -> Vec<Cmd> {
        vec![cmd(sp::INC, 0, 0), cmd(sp::INC_MANY, 0, 0)]
    }
    fn n(q: bool, _heavy: bool) -> usize {
        if q { 4 } else { 5 }
    }
    const DISC: Disc = Disc::Any;
}
impl Plan for Pn {
    fn alphabet() -> Vec<Cmd> {
        vec![cmd(sp::INC, 0, 0), cmd(sp::INC_MANY, 0, 0), cmd(sp::DEC, 0, 0), cmd(sp::DEC_MANY, 0, 0)]
    }
    fn n(q: bool, _heavy: bool) -> usize {
        if q { 3 } else { 4 }
    }
    const DISC: Disc = Disc::Any;
}
impl Plan for Gs {
    fn alphabet() -> Vec<Cmd> {
        vec![cmd(0, 0, 0), cmd(0, 1, 0), cmd(0, 2, 0)]
    }
    fn n(q: bool, _heavy: bool) -> usize {
        if q { 3 } else { 4 }
    }
    const DISC: Disc = Disc::Any;
}
impl Plan for Lww {
    fn alphabet() -> Vec<Cmd> {
        vec![cmd(sp::UPDATE, 1, 0), cmd(sp::UPDATE, 2, 0)]
    }
    fn n(q: bool, _heavy: bool) -> usize {
        if q { 4 } else { 5 }
    }
    const DISC: Disc = Disc::Any;
}
impl Plan for Mx {
    fn alphabet() -> Vec<Cmd> {
        vec![cmd(0, 0, 0), cmd(0, 1, 0), cmd(0, 2, 0), cmd(0, 3, 0)]
    }
    fn n(q: bool, _heavy: bool) -> usize {
        if q { 3 } else { 4 }
    }
    const DISC: Disc = Disc::Any;
}
impl Plan for Mn {
    fn alphabet() -> Vec<Cmd> {
        vec![cmd(0, 0, 0), cmd(0, 1, 0), cmd(0, 2, 0), cmd(0, 3, 0)]
    }
    fn n(q: bool, _heavy: bool) -> usize {
        if q { 3 } else { 4 }
    }
    const DISC: Disc = Disc::Any;
}
impl Plan for Gl {
    fn alphabet() -> Vec<Cmd> {
        vec![cmd(gl::INSERT, 0, 0), cmd(gl::INSERT, 1, 0), cmd(gl::INSERT, 2, 0), cmd(gl::AFTER, 0, 0), cmd(gl::AFTER, 1, 0), cmd(gl::BEFORE, 0, 0), cmd(gl::BEFORE, 1, 0)]
    }
    fn n(q: bool, heavy: bool) -> usize {
        match (q, heavy) {
            (true, _) => 4,
            (false, true) => 4,
            (false, false) => 5,
        }
    }
    const DISC: Disc = Disc::Any;
}
impl Plan for Li {
    fn alphabet() -> Vec<Cmd> {
        vec![cmd(li::INSERT, 0, 0), cmd(li::INSERT, 1, 0), cmd(li::INSERT, 2, 0), cmd(li::APPEND, 0, 0), cmd(li::DELETE, 0, 0), cmd(li::DELETE, 1, 0)]
    }
    fn narrow() -> Vec<Cmd> {
        vec![cmd(li::INSERT, 0, 0), cmd(li::INSERT, 1, 0), cmd(li::APPEND, 0, 0), cmd(li::DELETE, 0, 0), cmd(li::DELETE, 1, 0)]
    }
    fn n(q: bool, _heavy: bool) -> usize {
        if q {
            4
        } else {
            5
        }
    }
    const DISC: Disc = Disc::Causal;
}
impl Plan for Mk {
    // DAGs built from real reads by three writers
    fn alphabet() -> Vec<Cmd> {
        vec![cmd(mk::WRITE_HEADS, 0, 0)]
    }
    fn n(q: bool, _heavy: bool) -> usize {
        if q { 4 } else { 5 }
    }
    const DISC: Disc = Disc::Any;
}

/// List tie-breaking depends on actor order: never use the actor symmetry reduction
fn no_sym(mut c: Cfg) -> Cfg {
    c.sym = false;
    c
}
/// all DAGs with n nodes: node i's children = any subset of the earlier nodes (one writer, any delivery order)
fn merkle_dags(n: usize, merge: bool) -> Cfg {
    cfg(&format!("merkle_reg all DAGs with <= {} nodes, Any{}", n, if merge { "+merge" } else { "" }), n, 1, Disc::Any, merge, vec![cmd(mk::WRITE, 0, 0)], true)
}

/// one member, add / observed remove only: the skeleton of every or-set scenario, affordable one to two ops deeper
fn or_tiny(what: &str, n: usize) -> Cfg {
    cfg(&format!("orswot {} tiny alphabet (add / rm of one member), 3 actors, Fifo+merge n<={}", what, n), n, 3, Disc::Fifo, true, vec![cmd(so::ADD, 0, 0), cmd(so::RM_CONTAINS, 0, 0)], true)
}

/// one key, three members, three actors: three concurrent writers of one entry and partial key removes (seed C05-6)
fn map_one_key(what: &str, n: usize, disc: Disc, merge: bool) -> Cfg {
    cfg(
        &format!("map_orswot {} tiny alphabet (one key, three members), 3 actors, {:?}{} n<={}", what, disc, if merge { "+merge" } else { "" }, n),
        n,
        3,
        disc,
        merge,
        vec![cmd(mo::ADD, 0, 0), cmd(mo::ADD, 0, 1), cmd(mo::ADD, 0, 2), cmd(mo::RM_KEY, 0, 0)],
        true,
    )
}

fn plan_cfg<Y: Plan>(what: &str, q: bool, heavy: bool, disc: Disc, merge: bool) -> Cfg {
    let n = Y::n(q, heavy);
    cfg(&format!("{} {} {:?}{} n<={}", Y::NAME, what, disc, if merge { "+merge" } else { "" }, n), n, Y::ACTORS, disc, merge, Y::alphabet(), q || Y::THOROUGH_SYM)
}

/// thorough tier only: one more op with the narrow alphabet and two actors
fn deep_cfg<Y: Plan>(what: &str, n: usize, disc: Disc, merge: bool) -> Cfg {
    cfg(&format!("{} {} narrow alphabet, 2 actors, {:?}{} n<={}", Y::NAME, what, disc, if merge { "+merge" } else { "" }, n), n, 2, disc, merge, Y::narrow(), false)
}

/// one key, nested add_all (one dot witnesses two members), member and key removes: two pending nested removes whose
/// contexts collapse under a partial key remove need add_all + two member removes + a key remove (seeds C05-5, C08-5, C20-5)
fn map_addall(what: &str, n: usize, disc: Disc, merge: bool) -> Cfg {
    cfg(
        &format!("map_orswot {} nested add_all alphabet (one key, two members), 3 actors, {:?}{} n<={}", what, disc, if merge { "+merge" } else { "" }, n),
        n,
        3,
        disc,
        merge,
        vec![cmd(mo::ADD, 0, 0), cmd(mo::ADD_ALL, 0, 0), cmd(mo::RM_MEMBER, 0, 0), cmd(mo::RM_MEMBER, 0, 1), cmd(mo::RM_KEY, 0, 0)],
        true,
    )
}

/// thorough tier only: the full alphabet, three actors in first-appearance order, five ops
fn full5_cfg<Y: Plan>(what: &str, disc: Disc, merge: bool) -> Cfg {
    cfg(&format!("{} {} full alphabet, 3 actors (first-appearance order), {:?}{} n<={}", Y::NAME, what, disc, if merge { "+merge" } else { "" }, 5), 5, 3, disc, merge, Y::alphabet(), true)
}

macro_rules! for_systems {
    ($j:ident, [$($Y:ty),*], $f:expr) => { $( { type Y = $Y; let f: &dyn Fn() -> Box<dyn JobT> = &$f; let _ = std::marker::PhantomData::<Y>; $j.push(f()); } )* };
}

pub fn jobs(prop: &str, tier: &str) -> Vec<Box<dyn JobT>> {
    let q = tier == "quick";
    let mut j: Vec<Box<dyn JobT>> = vec![];
    macro_rules! each {
        ([$($Y:ty),*], |$T:ident| $e:expr) => { $( { type $T = $Y; j.push($e); } )* };
    }
    match prop {
        // op-based convergence under causal delivery
        "C01" => {
            each!([Vc, Gc, Pn, Gs, Lww, Mx, Mn, Mv, Or, MapMv, MapOr, MapMap, Gl, Mk], |Y| job::<Y>(plan_cfg::<Y>("ops", q, false, Disc::Causal, false), Converge { closed_only: false, merge_vs_ops: false }));
            j.push(job::<Li>(no_sym(plan_cfg::<Li>("ops", q, false, Disc::Causal, false)), Converge { closed_only: false, merge_vs_ops: false }));
            j.push(job::<Mk>(merkle_dags(if q { 4 } else { 5 }, false), Converge { closed_only: false, merge_vs_ops: false }));
            // three actors, one key, five ops: a remove context can hold two actors the entry no longer has (seed C01-5)
            j.push(job::<MapOr>(cfg("map_orswot ops tiny alphabet (one key), 3 actors, Causal n<=5", 5, 3, Disc::Causal, false, vec![cmd(mo::ADD, 0, 0), cmd(mo::ADD, 0, 1), cmd(mo::RM_KEY, 0, 0)], true), Converge { closed_only: false, merge_vs_ops: false }));
            if !q {
                each!([Or, MapMv, MapOr], |Y| job::<Y>(deep_cfg::<Y>("ops", 5, Disc::Causal, false), Converge { closed_only: false, merge_vs_ops: false }));
                j.push(job::<Mv>(cfg("mvreg ops narrow alphabet, 3 actors, Causal n<=6", 6, 3, Disc::Causal, false, Mv::narrow(), false), Converge { closed_only: false, merge_vs_ops: false }));
                // one op deeper with the full alphabets and three actors (first-appearance order): a fifth op lets a remove
                // context hold two foreign actors while its author edits on (seeds C01-6, C05-5, C08-5, C20-5 need 5 ops)
                each!([Or, MapMv, MapOr], |Y| job::<Y>(full5_cfg::<Y>("ops", Disc::Causal, false), Converge { closed_only: false, merge_vs_ops: false }));
            }
            // self-check of the lattice reduction against a naive permutation enumerator (machinery, not verdict)
            each!([Or, MapOr, MapMv], |Y| {
                let mut c = plan_cfg::<Y>("explorer self-check", true, true, Y::DISC, true);
                c.label = format!("{} explorer self-check (naive permutations vs lattice) {:?} n<={}", Y::NAME, Y::DISC, c.n);
                job::<Y>(c, SelfCheck)
            });
            j.push(job::<Li>(no_sym(plan_cfg::<Li>("explorer self-check (naive permutations vs lattice)", true, false, Disc::Causal, false)), SelfCheck));
        }
        // merge laws on reachable states (incl. pending removes and earlier merges)
        "C02" => {
            each!([Vc, Gc, Pn, Gs, Lww, Mx, Mn, Gl, Mk, Or, Mv, MapMv, MapOr, MapMap], |Y| {
                let mut c = plan_cfg::<Y>("pool laws", true, true, Y::DISC, true);
                c.n = if q { 2 } else { 3 };
                c.label = format!("{} all triples of reachable states, n<={}", Y::NAME, c.n);
                job::<Y>(c, MergeLaws { triples: true })
            });
            each!([Vc, Gc, Pn, Gs, Lww, Mx, Mn, Gl, Mk, Or, Mv, MapMv, MapOr, MapMap], |Y| {
                let mut c = plan_cfg::<Y>("pool laws", q, true, Y::DISC, true);
                c.label = format!("{} all pairs of reachable states + merge closure, n<={}", Y::NAME, c.n);
                job::<Y>(c, Multi::<Y>(vec![Box::new(MergeLaws { triples: false }), Box::new(Converge { closed_only: true, merge_vs_ops: false })]))
            });
            // two keys removed with the context of ONE read_ctx(): two pending key removes filed under the same clock at
            // two replicas, then merged in both groupings (seed C02-6 drops the second key set)
            let c = cfg("map_orswot two keys, removes with one read_ctx() context, all pairs of reachable states + merge closure, Fifo+merge n<=4", 4, 3, Disc::Fifo, true, vec![cmd(mo::ADD, 0, 0), cmd(mo::ADD, 1, 0), cmd(mo::RM_KEY_CTX, 0, 0), cmd(mo::RM_KEY_CTX, 1, 0)], true);
            j.push(job::<MapOr>(c, Multi::<MapOr>(vec![Box::new(MergeLaws { triples: false }), Box::new(Converge { closed_only: true, merge_vs_ops: false })])));
        }
        // merge == op delivery
        "C03" => {
            each!([Gc, Pn, Gs, Lww, Mx, Mn, Gl, Mk], |Y| job::<Y>(plan_cfg::<Y>("ops+merge", q, true, Disc::Any, true), Converge { closed_only: false, merge_vs_ops: true }));
            j.push(job::<Mk>(merkle_dags(if q { 4 } else { 5 }, true), Converge { closed_only: false, merge_vs_ops: true }));
            each!([Or, Mv, MapMv, MapOr, MapMap], |Y| job::<Y>(plan_cfg::<Y>("ops+merge", q, true, Disc::Causal, true), Converge { closed_only: false, merge_vs_ops: true }));
            each!([Or, MapMv, MapOr, MapMap], |Y| job::<Y>(plan_cfg::<Y>("ops+merge", q, true, Disc::Fifo, true), Converge { closed_only: false, merge_vs_ops: true }));
            j.push(job::<Or>(or_tiny("ops+merge", if q { 5 } else { 6 }), Converge { closed_only: false, merge_vs_ops: true }));
            j.push(job::<MapOr>(map_one_key("ops+merge", if q { 4 } else { 5 }, Disc::Causal, true), Converge { closed_only: false, merge_vs_ops: true }));
            if !q {
                each!([Or, MapOr, MapMv], |Y| job::<Y>(deep_cfg::<Y>("ops+merge", 5, Disc::Causal, true), Converge { closed_only: false, merge_vs_ops: true }));
            }
        }
        "C04" => {
            j.push(job::<Or>(plan_cfg::<Or>("spec", q, true, Disc::Fifo, true), SpecMatch { cov_everywhere: true, use_cov: true }));
            j.push(job::<Or>(or_tiny("spec", if q { 5 } else { 6 }), SpecMatch { cov_everywhere: true, use_cov: true }));
            if !q {
                j.push(job::<Or>(deep_cfg::<Or>("spec", 6, Disc::Fifo, true), SpecMatch { cov_everywhere: true, use_cov: true }));
                let mut c3 = deep_cfg::<Or>("spec", 5, Disc::Fifo, true);
                c3.actors = 3;
                c3.sym = true;
                c3.label = "orswot spec narrow alphabet, 3 actors (first-appearance order), Fifo+merge n<=5".into();
                j.push(job::<Or>(c3, SpecMatch { cov_everywhere: true, use_cov: true }));
            }
        }
        "C05" => {
            each!([MapMv, MapOr, MapMap], |Y| job::<Y>(plan_cfg::<Y>("spec", q, true, Disc::Causal, true), SpecMatch { cov_everywhere: false, use_cov: true }));
            each!([MapMv, MapOr, MapMap], |Y| job::<Y>(plan_cfg::<Y>("spec", q, false, Disc::Fifo, false), SpecMatch { cov_everywhere: true, use_cov: true }));
            j.push(job::<MapOr>(map_one_key("spec", if q { 4 } else { 5 }, Disc::Causal, true), SpecMatch { cov_everywhere: false, use_cov: true }));
            // merges of replicas that hold pending (overtaking) removes
            each!([MapMv, MapOr, MapMap], |Y| job::<Y>(plan_cfg::<Y>("spec", q, true, Disc::Fifo, true), SpecMatch { cov_everywhere: true, use_cov: true }));
            j.push(job::<MapOr>(cfg("map_orswot spec tiny alphabet (one key), 3 actors, Causal n<=5", 5, 3, Disc::Causal, false, vec![cmd(mo::ADD, 0, 0), cmd(mo::ADD, 0, 1), cmd(mo::RM_KEY, 0, 0)], true), SpecMatch { cov_everywhere: false, use_cov: true }));
            if !q {
                each!([MapMv, MapOr], |Y| job::<Y>(deep_cfg::<Y>("spec", 5, Disc::Causal, false), SpecMatch { cov_everywhere: false, use_cov: true }));
                each!([MapMv, MapOr], |Y| job::<Y>(full5_cfg::<Y>("spec", Disc::Causal, false), SpecMatch { cov_everywhere: false, use_cov: true }));
                j.push(job::<MapOr>(map_addall("spec", 5, Disc::Fifo, false), SpecMatch { cov_everywhere: true, use_cov: true }));
            }
        }
        "C06" => {
            j.push(job::<Mv>(plan_cfg::<Mv>("spec", q, true, Disc::Any, true), SpecMatch { cov_everywhere: true, use_cov: true }));
            if !q {
                j.push(job::<Mv>(cfg("mvreg spec narrow alphabet, 3 actors, Any n<=6", 6, 3, Disc::Any, false, Mv::narrow(), false), SpecMatch { cov_everywhere: true, use_cov: true }));
            }
        }
        "C07" => {
            each!([Or, MapMv, MapOr, MapMap], |Y| job::<Y>(plan_cfg::<Y>("contexts", q, true, Disc::Fifo, true), Multi::<Y>(vec![Box::new(CtxCheck), Box::new(SpecMatch { cov_everywhere: false, use_cov: true })])));
            j.push(job::<Mv>(plan_cfg::<Mv>("contexts", q, true, Disc::Any, true), CtxCheck));
            if !q {
                j.push(job::<Or>(deep_cfg::<Or>("contexts", 5, Disc::Fifo, true), Multi::<Or>(vec![Box::new(CtxCheck), Box::new(SpecMatch { cov_everywhere: false, use_cov: true })])));
            }
        }
        "C08" => {
            each!([Or, MapMv, MapOr, MapMap], |Y| job::<Y>(plan_cfg::<Y>("fifo vs causal", q, true, Disc::Fifo, true), Converge { closed_only: true, merge_vs_ops: false }));
            each!([Mv, Vc, Gc, Pn, Gs, Lww, Mx, Mn, Gl, Mk], |Y| job::<Y>(plan_cfg::<Y>("any order", q, true, Disc::Any, true), Converge { closed_only: false, merge_vs_ops: false }));
            j.push(job::<Mk>(merkle_dags(if q { 4 } else { 5 }, true), Converge { closed_only: false, merge_vs_ops: false }));
            if !q {
                j.push(job::<Or>(deep_cfg::<Or>("fifo vs causal", 5, Disc::Fifo, true), Converge { closed_only: true, merge_vs_ops: false }));
                j.push(job::<MapOr>(deep_cfg::<MapOr>("fifo vs causal", 5, Disc::Fifo, false), Converge { closed_only: true, merge_vs_ops: false }));
                j.push(job::<MapOr>(map_addall("fifo vs causal", 5, Disc::Fifo, false), Converge { closed_only: true, merge_vs_ops: false }));
                j.push(job::<Or>(full5_cfg::<Or>("fifo vs causal", Disc::Fifo, false), Converge { closed_only: true, merge_vs_ops: false }));
            }
        }
        "C09" => {
            each!([Or, MapMv, MapOr, MapMap], |Y| job::<Y>(plan_cfg::<Y>("dup+stale", q, true, Disc::Fifo, true), DupStale));
            each!([Mv, Vc, Gc, Pn, Gs, Lww, Mx, Mn, Gl, Mk], |Y| job::<Y>(plan_cfg::<Y>("dup+stale", q, true, Disc::Any, true), DupStale));
            j.push(job::<Li>(no_sym(plan_cfg::<Li>("dup", q, true, Disc::Causal, false)), DupStale));
            j.push(job::<Mk>(merkle_dags(if q { 4 } else { 5 }, true), DupStale));
            if !q {
                // four concurrent writers of one member / one key (seeds C09-5, C09-6 need 4 actors and 5 ops)
                let mut c4 = or_tiny("dup+stale", 5);
                c4.actors = 4;
                c4.label = "orswot dup+stale tiny alphabet (add / rm of one member), 4 actors, Fifo+merge n<=5".into();
                j.push(job::<Or>(c4, DupStale));
                let mut m4 = map_one_key("dup+stale", 5, Disc::Causal, true);
                m4.actors = 4;
                m4.cmds = vec![cmd(mo::ADD, 0, 0), cmd(mo::ADD, 0, 1), cmd(mo::RM_KEY, 0, 0)];
                m4.label = "map_orswot dup+stale tiny alphabet (one key, two members), 4 actors, Causal+merge n<=5".into();
                j.push(job::<MapOr>(m4, DupStale));
                j.push(job::<Or>(deep_cfg::<Or>("dup+stale", 5, Disc::Fifo, true), DupStale));
            }
        }
        "C11" => {
            each!([Gc, Pn, Gs, Lww, Mx, Mn], |Y| job::<Y>(plan_cfg::<Y>("aggregate", q, true, Disc::Any, true), Multi::<Y>(vec![Box::new(SpecMatch { cov_everywhere: false, use_cov: false }), Box::new(DupStale), Box::new(ValidateOp), Box::new(ValidateMerge { misuse: false })])));
            // totals beyond u64: two actors' running totals of 2^63 each add up to 2^64; the aggregate is a big integer and
            // must stay exact (seed C11-6)
            {
                let n = if q { 3 } else { 4 };
                let mut c = plan_cfg::<Gc>("aggregate", q, true, Disc::Any, true);
                c.cmds = vec![cmd(sp::INC, 0, 0), cmd(sp::INC_MANY, 1, 0)];
                c.n = n;
                c.label = format!("gcounter aggregate with steps of 2^63 Any+merge n<={}", n);
                j.push(job::<Gc>(c, Multi::<Gc>(vec![Box::new(SpecMatch { cov_everywhere: false, use_cov: false }), Box::new(DupStale)])));
                let mut c = plan_cfg::<Pn>("aggregate", q, true, Disc::Any, true);
                c.cmds = vec![cmd(sp::INC, 0, 0), cmd(sp::INC_MANY, 1, 0), cmd(sp::DEC_MANY, 1, 0)];
                c.n = n;
                c.label = format!("pncounter aggregate with steps of 2^63 Any+merge n<={}", n);
                j.push(job::<Pn>(c, Multi::<Pn>(vec![Box::new(SpecMatch { cov_everywhere: false, use_cov: false }), Box::new(DupStale)])));
            }
            // LWWReg with a possibly reused marker: validate_* must flag exactly equal marker + different value
            let mut c = plan_cfg::<Lww>("reused markers", q, true, Disc::Any, true);
            c.cmds = vec![cmd(sp::UPDATE, 1, 0), cmd(sp::UPDATE_REUSED, 1, 0), cmd(sp::UPDATE_REUSED, 2, 0)];
            c.n = if q { 3 } else { 4 };
            c.label = format!("lwwreg reused markers Any+merge n<={}", c.n);
            j.push(job::<Lww>(c, Multi::<Lww>(vec![Box::new(SpecMatch { cov_everywhere: false, use_cov: false }), Box::new(ValidateOp), Box::new(ValidateMerge { misuse: true })])));
        }
        "C12" => {
            j.push(job::<Li>(no_sym(plan_cfg::<Li>("global order", q, false, Disc::Causal, false)), Multi::<Li>(vec![Box::new(SpecMatch { cov_everywhere: false, use_cov: false }), Box::new(Converge { closed_only: false, merge_vs_ops: false }), Box::new(OrderCheck), Box::new(DupStale)])));
            if !q {
                // two actors, six ops: identifiers nested three deep, deletes of the elements they were built on
                j.push(job::<Li>(deep_cfg::<Li>("global order", 6, Disc::Causal, false), Multi::<Li>(vec![Box::new(SpecMatch { cov_everywhere: false, use_cov: false }), Box::new(Converge { closed_only: false, merge_vs_ops: false }), Box::new(OrderCheck), Box::new(DupStale)])));
            }
        }
        "C13" => {
            j.push(job::<Li>(no_sym(plan_cfg::<Li>("index model", q, true, Disc::Causal, false)), ListIndex));
            if !q {
                j.push(job::<Li>(deep_cfg::<Li>("index model", 6, Disc::Causal, false), ListIndex));
            }
            j.push(job::<Gl>(plan_cfg::<Gl>("index model", q, true, Disc::Any, true), Multi::<Gl>(vec![Box::new(GListIndex), Box::new(OrderCheck), Box::new(SpecMatch { cov_everywhere: false, use_cov: false })])));
        }
        "C15" => {
            let vs = || Multi::<Mk>(vec![Box::new(SpecMatch { cov_everywhere: false, use_cov: false }), Box::new(CtxCheck), Box::new(Converge { closed_only: false, merge_vs_ops: false }), Box::new(DupStale), Box::new(EqResidue)]);
            j.push(job::<Mk>(merkle_dags(if q { 4 } else { 5 }, true), vs()));
            if !q {
                j.push(job::<Mk>(merkle_dags(6, false), vs()));
            }
            j.push(job::<Mk>(plan_cfg::<Mk>("writes on read heads", q, true, Disc::Any, true), vs()));
        }
        "C16" => {
            each!([Vc, Lww, Mk], |Y| job::<Y>(plan_cfg::<Y>("validate_op", q, false, Disc::Any, false), ValidateOp));
            j.push(job::<Mk>(merkle_dags(if q { 4 } else { 5 }, false), ValidateOp));
            j.push(job::<Li>(no_sym(plan_cfg::<Li>("validate_op", q, false, Disc::Causal, false)), ValidateOp));
            each!([Gc, Pn, Gs, Mx, Mn, Gl, Mv], |Y| {
                let mut c = plan_cfg::<Y>("validate_op always Ok", true, false, Disc::Any, false);
                c.n = 3;
                job::<Y>(c, ValidateOp)
            });
            each!([Or, MapMv, MapOr, MapMap], |Y| job::<Y>(plan_cfg::<Y>("validate_op", q, false, Disc::Fifo, false), ValidateOp));
        }
        "C17" => {
            each!([Or, MapMv, MapOr, MapMap], |Y| job::<Y>(plan_cfg::<Y>("validate_merge correct use", q, true, Disc::Fifo, true), ValidateMerge { misuse: false }));
            j.push(job::<Lww>(plan_cfg::<Lww>("validate_merge unique markers", q, true, Disc::Any, true), ValidateMerge { misuse: false }));
            // misuse: replicas 0 and 1 both edit as actor 0 without seeing each other's ops, replica 2 is actor 1
            let mis = |mut c: Cfg, cmds: Vec<Cmd>, n: usize| {
                c.actor_map = vec![0, 0, 1];
                c.cmds = cmds;
                c.n = n;
                c.sym = false;
                c.merge = false;
                c.disc = Disc::Causal;
                c.label = format!("{} one actor id hosted on two replicas, all pairs of reachable states, n<={}", c.label.split(' ').next().unwrap_or(""), n);
                c
            };
            let n = if q { 3 } else { 4 };
            j.push(job::<Or>(mis(plan_cfg::<Or>("", q, true, Disc::Causal, false), vec![cmd(so::ADD, 0, 0), cmd(so::ADD, 1, 0), cmd(so::ADD, 2, 0), cmd(so::RM_CONTAINS, 0, 0)], n), ValidateMerge { misuse: true }));
            j.push(job::<MapMv>(mis(plan_cfg::<MapMv>("", q, true, Disc::Causal, false), vec![cmd(mm::UP, 0, 0), cmd(mm::UP, 1, 0), cmd(mm::UP, 2, 0), cmd(mm::RM_GET, 0, 0)], n), ValidateMerge { misuse: true }));
            j.push(job::<MapOr>(mis(plan_cfg::<MapOr>("", q, true, Disc::Causal, false), vec![cmd(mo::ADD, 0, 0), cmd(mo::ADD, 1, 0), cmd(mo::ADD, 0, 1), cmd(mo::ADD, 2, 0), cmd(mo::RM_KEY, 0, 0)], n), ValidateMerge { misuse: true }));
            let mut c = plan_cfg::<Lww>("reused markers", q, true, Disc::Any, true);
            c.cmds = vec![cmd(sp::UPDATE, 1, 0), cmd(sp::UPDATE_REUSED, 1, 0), cmd(sp::UPDATE_REUSED, 2, 0)];
            c.n = if q { 3 } else { 4 };
            c.label = format!("lwwreg reused markers Any+merge n<={}", c.n);
            j.push(job::<Lww>(c, ValidateMerge { misuse: true }));
            // one key, five ops: after a key remove the two misused replicas' entry clocks can be concurrent while one
            // map clock descends the other (seed C17-5)
            let mut c5 = mis(plan_cfg::<MapOr>("", q, true, Disc::Causal, false), vec![cmd(mo::ADD, 0, 0), cmd(mo::ADD, 0, 1), cmd(mo::RM_KEY, 0, 0)], 5);
            c5.label = "map_orswot one actor id hosted on two replicas, one key, all pairs of reachable states, n<=5".into();
            j.push(job::<MapOr>(c5, ValidateMerge { misuse: true }));
            if !q {
                // four replicas (actor ids 0,0,1,2): the two misused replicas can hold *concurrent* entry clocks,
                // the case in which Map::validate_merge does descend into the nested values
                let mut c4 = mis(plan_cfg::<MapOr>("", q, true, Disc::Causal, false), vec![cmd(mo::ADD, 0, 0), cmd(mo::ADD, 0, 1), cmd(mo::ADD, 0, 2)], 4);
                c4.actor_map = vec![0, 0, 1, 2];
                c4.actors = 4;
                c4.label = "map_orswot one actor id hosted on two of four replicas (concurrent entry clocks reachable), all pairs, n<=4".into();
                j.push(job::<MapOr>(c4, ValidateMerge { misuse: true }));
                // per-actor-FIFO delivery: a state of the pair may hold a pending remove that covers the reused dot (seed C17-6)
                let mut cf = mis(plan_cfg::<Or>("", q, true, Disc::Causal, false), vec![cmd(so::ADD, 0, 0), cmd(so::ADD, 1, 0), cmd(so::RM_CONTAINS, 0, 0)], 4);
                cf.disc = Disc::Fifo;
                cf.label = "orswot one actor id hosted on two replicas, Fifo delivery (pending removes), all pairs of reachable states, n<=4".into();
                j.push(job::<Or>(cf, ValidateMerge { misuse: true }));
            }
        }
        "C18" => {
            // every clock of the grid (3 actors x counters 0..=2: below, above and concurrent with the state's clock)
            each!([Vc, Gc, Pn, Or, Mv, MapMv, MapOr, MapMap], |Y| {
                let mut c = plan_cfg::<Y>("reset_remove + composition", true, true, Y::DISC, true);
                c.n = if q { 2 } else { 3 };
                c.label = format!("{} reset_remove with every grid clock, composition of every clock pair, {:?}+merge n<={}", Y::NAME, Y::DISC, c.n);
                job::<Y>(c, ResetRemoveCheck { actors: 3, max_counter: 2, compose: true })
            });
            each!([Vc, Gc, Pn, Or, Mv, MapMv, MapOr, MapMap], |Y| {
                let mut c = plan_cfg::<Y>("reset_remove", true, true, Y::DISC, true);
                // (Orswot gets 4 ops in the quick tier too: two pending removes whose contexts collide need them)
                c.n = if q { Y::n(true, true).max(3) } else { 4 };
                if Y::NAME == "map_mvreg" || Y::NAME == "map_orswot" {
                    c.n = 4; // two pending key removes whose contexts collide need four ops (seeds C08-6, C20-6)
                }
                c.label = format!("{} reset_remove with every grid clock, {:?}+merge n<={}", Y::NAME, Y::DISC, c.n);
                job::<Y>(c, ResetRemoveCheck { actors: 3, max_counter: 2, compose: false })
            });
        }
        "C19" => {
            // save/restore at every state; resume with every op and every merge partner (n small), with every op (n larger)
            each!([Vc, Gc, Pn, Gs, Lww, Mx, Mn, Gl, Mk, Or, Mv, MapMv, MapOr, MapMap], |Y| {
                let mut c = plan_cfg::<Y>("serde", true, true, Y::DISC, true);
                c.n = if q { 2 } else { 3 };
                c.label = format!("{} save/restore everywhere, resume with all ops and merges, {:?}+merge n<={}", Y::NAME, Y::DISC, c.n);
                job::<Y>(c, SerdeCheck { resume_merge: true })
            });
            each!([Vc, Gc, Pn, Gs, Lww, Mx, Mn, Gl, Mk, Or, Mv, MapMv, MapOr, MapMap], |Y| {
                let mut c = plan_cfg::<Y>("serde", true, true, Y::DISC, true);
                c.n = if q { 3 } else { 4 };
                c.label = format!("{} save/restore everywhere, resume with all ops, {:?}+merge n<={}", Y::NAME, Y::DISC, c.n);
                job::<Y>(c, SerdeCheck { resume_merge: false })
            });
            j.push(job::<Li>(no_sym(plan_cfg::<Li>("save/restore everywhere, resume with all ops,", q, true, Disc::Causal, false)), SerdeCheck { resume_merge: false }));
            j.push(job::<Mk>(merkle_dags(if q { 4 } else { 5 }, true), SerdeCheck { resume_merge: q }));
        }
        "C20" => {
            each!([Or, Mv, MapMv, MapOr, MapMap, Vc, Gc, Pn, Gs, Lww, Mx, Mn, Gl, Mk], |Y| job::<Y>(plan_cfg::<Y>("== and residue", q, true, Y::DISC, true), EqResidue));
            j.push(job::<Li>(no_sym(plan_cfg::<Li>("== under equal knowledge", q, false, Disc::Causal, false)), EqResidue));
            if !q {
                j.push(job::<Or>(deep_cfg::<Or>("== and residue", 5, Disc::Fifo, true), EqResidue));
                j.push(job::<MapOr>(map_addall("== and residue", 5, Disc::Fifo, false), EqResidue));
                j.push(job::<Or>(full5_cfg::<Or>("== and residue", Disc::Fifo, false), EqResidue));
            }
        }
        _ => {}
    }
    j
}
