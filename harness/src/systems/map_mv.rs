//! Map<u8 key, MVReg<u8,u8>, u8 actor>
use super::mvreg::{mv_content, mv_vals};
use super::*;
use crate::engine::*;
use crdts::{map, mvreg, CmRDT, CvRDT, MVReg, Map, ResetRemove};
use std::collections::BTreeMap;

pub struct MapMv;
pub type V = MVReg<u8, u8>;
pub type S = Map<u8, V, u8>;
pub type O = map::Op<u8, V, u8>;

pub const UP: u8 = 0; // update(key, get(key).derive_add_ctx(a), |r, c| r.write(<op index>, c))
pub const RM_GET: u8 = 1; // rm(key, get(key).derive_rm_ctx())
pub const RM_CTX: u8 = 2; // rm(key, read_ctx().derive_rm_ctx())
pub const KEYS: u8 = 3;

pub fn up_dot(o: &O) -> Option<(crdts::Dot<u8>, u8)> {
    match o {
        map::Op::Up { dot, key, .. } => Some((*dot, *key)),
        _ => None,
    }
}

/// Is the update op `i` (on key `key`) alive w.r.t. the key removes in `k`?
pub fn up_alive<Y: Sys<O = map::Op<u8, VV, u8>>, VV: map::Val<u8>>(recs: &[Rec<Y>], k: Mask, i: usize, form: Form) -> bool {
    let (dot, key) = match &recs[i].op {
        map::Op::Up { dot, key, .. } => (*dot, *key),
        _ => return false,
    };
    !recs.iter().enumerate().any(|(j, r2)| {
        k >> j & 1 == 1
            && match &r2.op {
                map::Op::Rm { clock, keyset } => {
                    keyset.contains(&key)
                        && match form {
                            Form::Cov => covers(clock, &dot),
                            Form::Vis => r2.vis >> i & 1 == 1,
                        }
                }
                _ => false,
            }
    })
}

pub fn map_add_clock<Y: Sys<O = map::Op<u8, VV, u8>>, VV: map::Val<u8>>(recs: &[Rec<Y>], k: Mask) -> Clk {
    let mut c: Clk = vec![];
    for (i, r) in recs.iter().enumerate() {
        if k >> i & 1 == 1 {
            if let map::Op::Up { dot, .. } = &r.op {
                clk_add_dot(&mut c, dot.actor, dot.counter);
            }
        }
    }
    c
}
pub fn key_witness<Y: Sys<O = map::Op<u8, VV, u8>>, VV: map::Val<u8>>(recs: &[Rec<Y>], k: Mask, key: u8, form: Form) -> Clk {
    let mut w: Clk = vec![];
    for (i, r) in recs.iter().enumerate() {
        if k >> i & 1 == 1 {
            if let map::Op::Up { dot, key: k2, .. } = &r.op {
                if *k2 == key && up_alive(recs, k, i, form) {
                    clk_add_dot(&mut w, dot.actor, dot.counter);
                }
            }
        }
    }
    w
}

/// Generic top-level Map context oracle (C07), shared by all Map instantiations.
pub fn map_ctx_check<Y: Sys<O = map::Op<u8, VV, u8>, S = Map<u8, VV, u8>>, VV: map::Val<u8> + std::fmt::Debug>(recs: &[Rec<Y>], k: Mask, s: &Map<u8, VV, u8>, actors: u8, keys: u8) -> Vec<String> {
    let mut out = vec![];
    let add = map_add_clock(recs, k);
    let mut all_w: Clk = vec![];
    for key in 0..keys {
        let w = key_witness(recs, k, key, Form::Cov);
        all_w = clk_join(&all_w, &w);
        let g = s.get(&key);
        if cv(&g.add_clock) != add {
            out.push(format!("get({}).add_clock={} expected {:?}", key, vc(&g.add_clock), add));
        }
        if cv(&g.rm_clock) != w {
            out.push(format!("get({}).rm_clock={} expected {:?}", key, vc(&g.rm_clock), w));
        }
        if g.val.is_some() != !w.is_empty() {
            out.push(format!("get({}) present={} but surviving update dots {:?}", key, g.val.is_some(), w));
        }
    }
    let mut n = 0;
    for it in s.keys() {
        n += 1;
        let w = key_witness(recs, k, *it.val, Form::Cov);
        if cv(&it.add_clock) != add || cv(&it.rm_clock) != w {
            out.push(format!("keys() item {} add={} rm={} expected add={:?} rm={:?}", it.val, vc(&it.add_clock), vc(&it.rm_clock), add, w));
        }
    }
    let ks: Vec<u8> = s.keys().map(|c| *c.val).collect();
    for (it, key) in s.values().zip(ks.iter()) {
        let w = key_witness(recs, k, *key, Form::Cov);
        if cv(&it.add_clock) != add || cv(&it.rm_clock) != w {
            out.push(format!("values() item for key {} add={} rm={} expected add={:?} rm={:?}", key, vc(&it.add_clock), vc(&it.rm_clock), add, w));
        }
    }
    for it in s.iter() {
        let w = key_witness(recs, k, *it.val.0, Form::Cov);
        if cv(&it.add_clock) != add || cv(&it.rm_clock) != w {
            out.push(format!("iter() item {} add={} rm={} expected add={:?} rm={:?}", it.val.0, vc(&it.add_clock), vc(&it.rm_clock), add, w));
        }
    }
    let (l, e, rc) = (s.len(), s.is_empty(), s.read_ctx());
    if l.val != n || e.val != (n == 0) {
        out.push(format!("len()={} is_empty()={} but keys() yields {}", l.val, e.val, n));
    }
    for (name, ac, rm) in [("len", &l.add_clock, &l.rm_clock), ("is_empty", &e.add_clock, &e.rm_clock), ("read_ctx", &rc.add_clock, &rc.rm_clock)] {
        let rcv = cv(rm);
        if cv(ac) != add {
            out.push(format!("{}().add_clock={} expected {:?}", name, vc(ac), add));
        }
        if clk_join(&rcv, &add) != add {
            out.push(format!("{}().rm_clock={} exceeds add_clock {:?}", name, vc(rm), add));
        }
        if clk_join(&rcv, &all_w) != rcv {
            out.push(format!("{}().rm_clock={} does not cover the surviving witnesses {:?}", name, vc(rm), all_w));
        }
    }
    for a in 0..actors {
        if !recs.iter().enumerate().all(|(i, r)| r.author != a || k >> i & 1 == 1) {
            continue;
        }
        let want = clk_get(&add, a) + 1;
        let mut wc = add.clone();
        clk_add_dot(&mut wc, a, want);
        for (name, ctx) in [("read_ctx", s.read_ctx().derive_add_ctx(a)), ("get(0)", s.get(&0).derive_add_ctx(a)), ("len", s.len().derive_add_ctx(a))] {
            if ctx.dot.actor != a || ctx.dot.counter != want || cv(&ctx.clock) != wc {
                out.push(format!("{}.derive_add_ctx({}) = dot {:?} clock {} expected {}.{} {:?}", name, a, ctx.dot, vc(&ctx.clock), a, want, wc));
            }
        }
    }
    out
}

pub fn map_validate_expect<Y: Sys<O = map::Op<u8, VV, u8>>, VV: map::Val<u8>>(recs: &[Rec<Y>], k: Mask, j: usize) -> Expect {
    match &recs[j].op {
        map::Op::Rm { .. } => Expect::Accept,
        map::Op::Up { dot, .. } => {
            let have = clk_get(&map_add_clock(recs, k), dot.actor);
            if dot.counter <= have + 1 {
                Expect::Accept
            } else {
                Expect::Reject
            }
        }
    }
}

pub fn map_double_spent<VV: map::Val<u8>>(a: &Map<u8, VV, u8>, b: &Map<u8, VV, u8>) -> bool {
    for x in a.keys() {
        for y in b.keys() {
            if x.val != y.val {
                for (act, n) in cv(&x.rm_clock) {
                    if y.rm_clock.get(&act) == n {
                        return true;
                    }
                }
            }
        }
    }
    false
}

pub fn map_deferred_view<VV: map::Val<u8>>(s: &Map<u8, VV, u8>) -> Vec<(Clk, Vec<String>)> {
    let mut d: Vec<(Clk, Vec<String>)> = s.verif_deferred().into_iter().map(|(c, ks)| (cv(&c), ks.into_iter().map(|k| k.to_string()).collect())).collect();
    d.sort();
    d
}

/// key-level reads of any Map: presence + top-level contexts of every entry point
pub fn map_top_reads<VV: map::Val<u8>>(s: &Map<u8, VV, u8>, keys: u8) -> String {
    let mut out = String::new();
    for k in 0..keys {
        let g = s.get(&k);
        out.push_str(&format!("get{}:{}/{}/{} ", k, g.val.is_some(), vc(&g.add_clock), vc(&g.rm_clock)));
    }
    let ks: Vec<(u8, String)> = s.keys().map(|c| (*c.val, vc(&c.rm_clock))).collect();
    let (l, e, rc) = (s.len(), s.is_empty(), s.read_ctx());
    out.push_str(&format!("keys={:?} len={}/{}/{} empty={}/{} ctx={}/{}", ks, l.val, vc(&l.add_clock), vc(&l.rm_clock), e.val, vc(&e.rm_clock), vc(&rc.add_clock), vc(&rc.rm_clock)));
    out
}

fn content(s: &S) -> String {
    let mut m: BTreeMap<u8, String> = BTreeMap::new();
    for e in s.iter() {
        m.insert(*e.val.0, mv_content(e.val.1));
    }
    // get() must agree with iter()
    for k in 0..KEYS {
        let g = s.get(&k).val.map(|v| mv_content(&v));
        if g != m.get(&k).cloned() {
            return format!("!get({}) = {:?} disagrees with iter() = {:?}", k, g, m);
        }
    }
    format!("{:?}", m)
}

impl Sys for MapMv {
    type S = S;
    type O = O;
    const NAME: &'static str = "map_mvreg";

    fn init() -> S {
        Map::new()
    }
    fn gen(_h: &[Rec<Self>], s: &S, a: u8, c: Cmd, idx: usize) -> Option<O> {
        Some(match c.k {
            UP => s.update(c.x, s.get(&c.x).derive_add_ctx(a), |r, ctx| r.write(idx as u8, ctx)),
            RM_GET => s.rm(c.x, s.get(&c.x).derive_rm_ctx()),
            RM_CTX => s.rm(c.x, s.read_ctx().derive_rm_ctx()),
            _ => unreachable!(),
        })
    }
    fn apply(s: &mut S, o: &O) {
        s.apply(o.clone())
    }
    fn merge(s: &mut S, o: &S) {
        s.merge(o.clone())
    }
    fn reads(s: &S) -> String {
        format!("{} {}", content(s), map_top_reads(s, KEYS))
    }
    fn content(s: &S) -> String {
        content(s)
    }
    fn cmd_name(c: Cmd) -> String {
        match c.k {
            UP => format!("update({k}, get({k}).derive_add_ctx(actor), |r, c| r.write(<op index>, c))", k = c.x),
            RM_GET => format!("rm({k}, get({k}).derive_rm_ctx())", k = c.x),
            RM_CTX => format!("rm({k}, read_ctx().derive_rm_ctx())", k = c.x),
            _ => "?".into(),
        }
    }
    fn rust_type() -> &'static str {
        "Map<u8, MVReg<u8, u8>, u8>"
    }
    fn rust_gen(c: Cmd, a: u8, idx: usize) -> String {
        match c.k {
            UP => format!("s.update({k}u8, s.get(&{k}).derive_add_ctx({a}), |r, c| r.write({v}u8, c))", k = c.x, a = a, v = idx),
            RM_GET => format!("s.rm({k}u8, s.get(&{k}).derive_rm_ctx())", k = c.x),
            _ => format!("s.rm({k}u8, s.read_ctx().derive_rm_ctx())", k = c.x),
        }
    }
    fn rust_reads() -> &'static str {
        "let v: Vec<(u8, Vec<u8>, VClock<u8>)> = s.iter().map(|c| { let mut x = c.val.1.read().val; x.sort(); (*c.val.0, x, c.rm_clock.clone()) }).collect(); format!(\"key -> values, key witness {:?} clock {:?}\", v, s.read_ctx().add_clock)"
    }
    fn classes(_c: Cmd) -> (Class, Class) {
        (Class::Key, Class::None)
    }
    fn is_remove(c: Cmd) -> bool {
        c.k != UP
    }
    fn spec(recs: &[Rec<Self>], k: Mask, form: Form) -> Option<String> {
        let mut m: BTreeMap<u8, String> = BTreeMap::new();
        for key in 0..KEYS {
            let mut present = false;
            let mut vals = vec![];
            for (i, r) in recs.iter().enumerate() {
                if k >> i & 1 == 0 {
                    continue;
                }
                if let map::Op::Up { dot, key: k2, op: mvreg::Op::Put { val, .. } } = &r.op {
                    if *k2 != key || !up_alive(recs, k, i, form) {
                        continue;
                    }
                    present = true;
                    let superseded = recs.iter().enumerate().any(|(j, r2)| {
                        j != i
                            && k >> j & 1 == 1
                            && match &r2.op {
                                map::Op::Up { key: k3, op: mvreg::Op::Put { clock, .. }, .. } if *k3 == key => match form {
                                    Form::Vis => r2.vis >> i & 1 == 1,
                                    Form::Cov => covers(clock, dot),
                                },
                                _ => false,
                            }
                    });
                    if !superseded {
                        vals.push(*val);
                    }
                }
            }
            vals.sort();
            if present {
                m.insert(key, format!("{:?}", vals));
            }
        }
        Some(format!("{:?}", m))
    }
    fn ctx_check(recs: &[Rec<Self>], k: Mask, s: &S, actors: u8) -> Vec<String> {
        map_ctx_check(recs, k, s, actors, KEYS)
    }
    fn validate_op(s: &S, o: &O) -> Result<(), String> {
        s.validate_op(o).map_err(|e| format!("{:?}", e))
    }
    fn expect_valid(recs: &[Rec<Self>], k: Mask, j: usize) -> Expect {
        map_validate_expect(recs, k, j)
    }
    fn validate_merge(a: &S, b: &S) -> Result<(), String> {
        a.validate_merge(b).map_err(|e| format!("{:?}", e))
    }
    fn double_spent(a: &S, b: &S) -> bool {
        map_double_spent(a, b)
    }
    fn reset_remove(s: &mut S, c: &crdts::VClock<u8>) {
        s.reset_remove(c)
    }
    fn rr_view(s: &S) -> RrView {
        let elems = s.iter().map(|c| (c.val.0.to_string(), cv(&c.rm_clock), Some(Box::new(super::mvreg::mv_rr_view(c.val.1))))).collect();
        RrView { clock: cv(&s.read_ctx().add_clock), elems, pending: map_deferred_view(s) }
    }
    fn to_json(s: &S) -> Result<String, String> {
        serde_json::to_string(s).map_err(|e| e.to_string())
    }
    fn from_json(j: &str) -> Result<S, String> {
        serde_json::from_str(j).map_err(|e| e.to_string())
    }
    fn op_roundtrip(o: &O) -> Result<O, String> {
        let j = serde_json::to_string(o).map_err(|e| e.to_string())?;
        serde_json::from_str(&j).map_err(|e| e.to_string())
    }
    fn pending(s: &S) -> usize {
        s.verif_deferred().len()
    }
    fn residue(s: &S) -> Vec<String> {
        let mut out: Vec<String> = map_deferred_view(s).into_iter().map(|(c, ks)| format!("pending key remove {:?} of {:?}", c, ks)).collect();
        for e in s.iter() {
            if e.rm_clock.is_empty() {
                out.push(format!("key {} with empty witness", e.val.0));
            }
            for (c, v) in mv_vals(e.val.1) {
                if c.is_empty() {
                    out.push(format!("key {} value {} with empty context", e.val.0, v));
                }
            }
        }
        out
    }
    fn observable_view(s: &S) -> Option<String> {
        // everything except the hidden write contexts attached to register values
        Some(format!("{} clock={:?} pending={:?}", Self::reads(s), cv(&s.read_ctx().add_clock), map_deferred_view(s)))
    }
}
