//! MVReg<u8 value, u8 actor>
use super::*;
use crate::engine::*;
use crdts::{mvreg, CmRDT, CvRDT, MVReg, ResetRemove};

pub struct Mv;
pub type S = MVReg<u8, u8>;
pub type O = mvreg::Op<u8, u8>;

pub const WRITE: u8 = 0; // value = op index (unique)
pub const WRITE_SAME: u8 = 1; // value = 77 (equal values written concurrently must both be kept)

pub fn op_clock(o: &O) -> &crdts::VClock<u8> {
    match o {
        mvreg::Op::Put { clock, .. } => clock,
    }
}
pub fn op_val(o: &O) -> u8 {
    match o {
        mvreg::Op::Put { val, .. } => *val,
    }
}
/// (clock, value) pairs of a register through its serialised form (the value clocks are not otherwise
/// readable)
pub fn mv_vals(s: &S) -> Vec<(Clk, u8)> {
    let v = serde_json::to_value(s).unwrap();
    let mut out: Vec<(Clk, u8)> = v
        .as_array()
        .unwrap()
        .iter()
        .map(|p| {
            let c: crdts::VClock<u8> = serde_json::from_value(p[0].clone()).unwrap();
            (cv(&c), p[1].as_u64().unwrap() as u8)
        })
        .collect();
    out.sort();
    out
}
pub fn mv_content(s: &S) -> String {
    let mut v = s.read().val;
    v.sort();
    format!("{:?}", v)
}
pub fn mv_rr_view(s: &S) -> RrView {
    let mut elems: Vec<(String, Clk, Option<Box<RrView>>)> = mv_vals(s).into_iter().map(|(c, v)| (format!("v{}", v), c, None)).collect();
    elems.sort();
    RrView { clock: vec![], elems, pending: vec![] }
}

impl Sys for Mv {
    type S = S;
    type O = O;
    const NAME: &'static str = "mvreg";
    const VIS_ANY_K: bool = true;

    fn init() -> S {
        MVReg::new()
    }
    fn gen(_h: &[Rec<Self>], s: &S, a: u8, c: Cmd, idx: usize) -> Option<O> {
        let v = if c.k == WRITE { idx as u8 } else { 77 };
        Some(s.write(v, s.read().derive_add_ctx(a)))
    }
    fn apply(s: &mut S, o: &O) {
        s.apply(o.clone())
    }
    fn merge(s: &mut S, o: &S) {
        s.merge(o.clone())
    }
    fn reads(s: &S) -> String {
        let r = s.read();
        let rc = s.read_ctx();
        format!("{} add={} rm={} ctx.add={} ctx.rm={}", mv_content(s), vc(&r.add_clock), vc(&r.rm_clock), vc(&rc.add_clock), vc(&rc.rm_clock))
    }
    fn content(s: &S) -> String {
        mv_content(s)
    }
    fn cmd_name(c: Cmd) -> String {
        if c.k == WRITE { "write(<op index>, read().derive_add_ctx(actor))".into() } else { "write(77, read().derive_add_ctx(actor))".into() }
    }
    fn rust_type() -> &'static str {
        "MVReg<u8, u8>"
    }
    fn rust_gen(c: Cmd, a: u8, idx: usize) -> String {
        format!("s.write({}, s.read().derive_add_ctx({}))", if c.k == WRITE { idx as u8 } else { 77 }, a)
    }
    fn rust_reads() -> &'static str {
        "let r = s.read(); let mut v = r.val.clone(); v.sort(); format!(\"values {:?} context {:?}\", v, r.add_clock)"
    }
    fn spec(recs: &[Rec<Self>], k: Mask, form: Form) -> Option<String> {
        let mut vals = vec![];
        for (i, r) in recs.iter().enumerate() {
            if k >> i & 1 == 0 {
                continue;
            }
            let sup = recs.iter().enumerate().any(|(j, r2)| {
                j != i
                    && k >> j & 1 == 1
                    && match form {
                        Form::Vis => r2.vis >> i & 1 == 1,
                        Form::Cov => op_clock(&r2.op) > op_clock(&r.op),
                    }
            });
            if !sup {
                vals.push(op_val(&r.op));
            }
        }
        vals.sort();
        Some(format!("{:?}", vals))
    }
    fn ctx_check(recs: &[Rec<Self>], k: Mask, s: &S, actors: u8) -> Vec<String> {
        let mut out = vec![];
        let mut add: Clk = vec![];
        for (i, r) in recs.iter().enumerate() {
            if k >> i & 1 == 1 {
                add = clk_join(&add, &cv(op_clock(&r.op)));
            }
        }
        let r = s.read();
        let rc = s.read_ctx();
        for (name, a, rm) in [("read", &r.add_clock, &r.rm_clock), ("read_ctx", &rc.add_clock, &rc.rm_clock)] {
            if cv(a) != add {
                out.push(format!("{}().add_clock={} expected {:?}", name, vc(a), add));
            }
            if cv(rm) != add {
                out.push(format!("{}().rm_clock={} expected {:?} (join of the surviving values' contexts)", name, vc(rm), add));
            }
        }
        for a in 0..actors {
            if !recs.iter().enumerate().all(|(i, r)| r.author != a || k >> i & 1 == 1) {
                continue;
            }
            let ctx = s.read().derive_add_ctx(a);
            let want = clk_get(&add, a) + 1;
            let mut wc = add.clone();
            clk_add_dot(&mut wc, a, want);
            if ctx.dot.actor != a || ctx.dot.counter != want || cv(&ctx.clock) != wc {
                out.push(format!("derive_add_ctx({}) = dot {:?} clock {} expected {}.{} {:?}", a, ctx.dot, vc(&ctx.clock), a, want, wc));
            }
            // the derived dot must be unused: no applied write of this actor carries it
            let used = recs.iter().enumerate().any(|(i, r)| k >> i & 1 == 1 && r.author == a && op_clock(&r.op).get(&a) >= ctx.dot.counter);
            if used {
                out.push(format!("derive_add_ctx({}) hands out the already used dot {:?}", a, ctx.dot));
            }
        }
        out
    }
    fn validate_op(s: &S, o: &O) -> Result<(), String> {
        s.validate_op(o).map_err(|e| format!("{:?}", e))
    }
    fn validate_merge(a: &S, b: &S) -> Result<(), String> {
        a.validate_merge(b).map_err(|e| format!("{:?}", e))
    }
    fn reset_remove(s: &mut S, c: &crdts::VClock<u8>) {
        s.reset_remove(c)
    }
    fn rr_view(s: &S) -> RrView {
        mv_rr_view(s)
    }
    fn to_json(s: &S) -> Result<String, String> {
        serde_json::to_string(s).map_err(|e| e.to_string())
    }
    fn from_json(j: &str) -> Result<S, String> {
        serde_json::from_str(j).map_err(|e| e.to_string())
    }
    fn op_roundtrip(o: &O) -> Result<O, String> {
        let j = serde_json::to_string(o).map_err(|e| e.to_string())?;
        serde_json::from_str(&j).map_err(|e| e.to_string())
    }
    fn residue(s: &S) -> Vec<String> {
        mv_vals(s).into_iter().filter(|(c, _)| c.is_empty()).map(|(_, v)| format!("value {} with empty context", v)).collect()
    }
}
