//! The order-free types: VClock, GCounter, PNCounter, GSet, LWWReg, MaxReg, MinReg.
use super::*;
use crate::engine::*;
use crdts::{pncounter, CmRDT, CvRDT, GCounter, GSet, LWWReg, MaxReg, MinReg, PNCounter, ResetRemove};
use std::collections::BTreeSet;

fn json_rt<T: serde::Serialize + serde::de::DeserializeOwned>(o: &T) -> Result<T, String> {
    let j = serde_json::to_string(o).map_err(|e| e.to_string())?;
    serde_json::from_str(&j).map_err(|e| e.to_string())
}
macro_rules! serde_impl {
    ($S:ty, $O:ty) => {
        fn to_json(s: &$S) -> Result<String, String> {
            serde_json::to_string(s).map_err(|e| e.to_string())
        }
        fn from_json(j: &str) -> Result<$S, String> {
            serde_json::from_str(j).map_err(|e| e.to_string())
        }
        fn op_roundtrip(o: &$O) -> Result<$O, String> {
            json_rt(o)
        }
    };
}

// ------------------------------------------------------------------------------------------ VClock
pub struct Vc;
pub const INC: u8 = 0;
impl Sys for Vc {
    type S = VClock<u8>;
    type O = Dot<u8>;
    const NAME: &'static str = "vclock";
    fn init() -> Self::S {
        VClock::new()
    }
    fn gen(_h: &[Rec<Self>], s: &Self::S, a: u8, _c: Cmd, _idx: usize) -> Option<Self::O> {
        Some(s.inc(a))
    }
    fn apply(s: &mut Self::S, o: &Self::O) {
        s.apply(*o)
    }
    fn merge(s: &mut Self::S, o: &Self::S) {
        s.merge(o.clone())
    }
    fn reads(s: &Self::S) -> String {
        let via_get: Vec<(u8, u64)> = (0..4u8).map(|a| (a, s.get(&a))).filter(|(_, n)| *n > 0).collect();
        let via_iter: Vec<(u8, u64)> = s.iter().map(|d| (*d.actor, d.counter)).collect();
        if via_get != via_iter || s.is_empty() != via_get.is_empty() {
            return format!("!get {:?} vs iter {:?}", via_get, via_iter);
        }
        format!("{:?}", via_get)
    }
    fn cmd_name(_c: Cmd) -> String {
        "inc(actor)".into()
    }
    fn spec(recs: &[Rec<Self>], k: Mask, _f: Form) -> Option<String> {
        let mut c: Clk = vec![];
        for (i, r) in recs.iter().enumerate() {
            if k >> i & 1 == 1 {
                clk_add_dot(&mut c, r.op.actor, r.op.counter);
            }
        }
        Some(format!("{:?}", c))
    }
    const VIS_ANY_K: bool = true;
    fn validate_op(s: &Self::S, o: &Self::O) -> Result<(), String> {
        s.validate_op(o).map_err(|e| format!("{:?}", e))
    }
    fn expect_valid(recs: &[Rec<Self>], k: Mask, j: usize) -> Expect {
        let d = recs[j].op;
        let have = recs.iter().enumerate().filter(|(i, r)| k >> i & 1 == 1 && r.op.actor == d.actor).map(|(_, r)| r.op.counter).max().unwrap_or(0);
        if d.counter <= have + 1 {
            Expect::Accept
        } else {
            Expect::Reject
        }
    }
    fn validate_merge(a: &Self::S, b: &Self::S) -> Result<(), String> {
        a.validate_merge(b).map_err(|e| format!("{:?}", e))
    }
    fn reset_remove(s: &mut Self::S, c: &VClock<u8>) {
        s.reset_remove(c)
    }
    fn rr_view(s: &Self::S) -> RrView {
        RrView { clock: cv(s), elems: vec![], pending: vec![] }
    }
    fn residue(s: &Self::S) -> Vec<String> {
        s.dots.iter().filter(|(_, n)| **n == 0).map(|(a, _)| format!("zero counter stored for actor {}", a)).collect()
    }
    serde_impl!(VClock<u8>, Dot<u8>);
}

// ---------------------------------------------------------------------------------------- GCounter
pub struct Gc;
pub const INC_MANY: u8 = 1;
fn gc_clock(s: &GCounter<u8>) -> VClock<u8> {
    serde_json::from_value(serde_json::to_value(s).unwrap()).unwrap()
}
fn counter_sum(recs_dots: impl Iterator<Item = Dot<u8>>) -> u128 {
    let mut c: Clk = vec![];
    for d in recs_dots {
        clk_add_dot(&mut c, d.actor, d.counter);
    }
    c.iter().map(|(_, n)| *n as u128).sum()
}
/// `inc_many` / `dec_many` step of a command: x = 1 selects a step of 2^63, so that two actors' totals (each of which
/// fits a u64) add up to 2^64 - the aggregate is a BigUint/BigInt and must stay exact there (seed C11-6)
pub const HUGE: u64 = 1 << 63;
fn many_step(c: Cmd) -> u64 {
    if c.x == 1 { HUGE } else { 2 }
}
impl Sys for Gc {
    type S = GCounter<u8>;
    type O = Dot<u8>;
    const NAME: &'static str = "gcounter";
    const VIS_ANY_K: bool = true;
    fn init() -> Self::S {
        GCounter::new()
    }
    fn gen(_h: &[Rec<Self>], s: &Self::S, a: u8, c: Cmd, _idx: usize) -> Option<Self::O> {
        if c.k == INC {
            return Some(s.inc(a));
        }
        // a per-actor total beyond u64 is outside the type's domain: such a call is not part of the alphabet
        gc_clock(s).get(&a).checked_add(many_step(c))?;
        Some(s.inc_many(a, many_step(c)))
    }
    fn apply(s: &mut Self::S, o: &Self::O) {
        s.apply(*o)
    }
    fn merge(s: &mut Self::S, o: &Self::S) {
        s.merge(o.clone())
    }
    fn reads(s: &Self::S) -> String {
        format!("{}", s.read())
    }
    fn cmd_name(c: Cmd) -> String {
        if c.k == INC { "inc(actor)".into() } else { format!("inc_many(actor, {})", many_step(c)) }
    }
    fn spec(recs: &[Rec<Self>], k: Mask, _f: Form) -> Option<String> {
        // sum over actors of the largest running total learned from that actor ...
        let sum = counter_sum(recs.iter().enumerate().filter(|(i, _)| k >> i & 1 == 1).map(|(_, r)| r.op));
        // ... which is all of the actor's increments once all of them have arrived
        let mut steps_total = 0u128;
        let mut complete = true;
        for a in 0..4u8 {
            let all_in = recs.iter().enumerate().all(|(i, r)| r.author != a || k >> i & 1 == 1);
            if !all_in {
                complete = false;
            }
            steps_total += recs.iter().filter(|r| r.author == a).map(|r| if r.cmd.k == INC { 1 } else { many_step(r.cmd) as u128 }).sum::<u128>();
        }
        if complete && steps_total != sum {
            return Some(format!("{} (all increments arrived: expected {})", sum, steps_total));
        }
        Some(format!("{}", sum))
    }
    fn validate_op(s: &Self::S, o: &Self::O) -> Result<(), String> {
        s.validate_op(o).map_err(|e| format!("{:?}", e))
    }
    fn validate_merge(a: &Self::S, b: &Self::S) -> Result<(), String> {
        a.validate_merge(b).map_err(|e| format!("{:?}", e))
    }
    fn reset_remove(s: &mut Self::S, c: &VClock<u8>) {
        s.reset_remove(c)
    }
    fn rr_view(s: &Self::S) -> RrView {
        RrView { clock: cv(&gc_clock(s)), elems: vec![], pending: vec![] }
    }
    serde_impl!(GCounter<u8>, Dot<u8>);
}

// --------------------------------------------------------------------------------------- PNCounter
pub struct Pn;
pub const DEC: u8 = 2;
pub const DEC_MANY: u8 = 3;
fn pn_clocks(s: &PNCounter<u8>) -> (VClock<u8>, VClock<u8>) {
    let v = serde_json::to_value(s).unwrap();
    (serde_json::from_value(v["p"].clone()).unwrap(), serde_json::from_value(v["n"].clone()).unwrap())
}
impl Sys for Pn {
    type S = PNCounter<u8>;
    type O = pncounter::Op<u8>;
    const NAME: &'static str = "pncounter";
    const VIS_ANY_K: bool = true;
    fn init() -> Self::S {
        PNCounter::new()
    }
    fn gen(_h: &[Rec<Self>], s: &Self::S, a: u8, c: Cmd, _idx: usize) -> Option<Self::O> {
        let (p, n) = pn_clocks(s);
        Some(match c.k {
            INC => s.inc(a),
            INC_MANY => {
                p.get(&a).checked_add(many_step(c))?;
                s.inc_many(a, many_step(c))
            }
            DEC => s.dec(a),
            _ => {
                n.get(&a).checked_add(many_step(c))?;
                s.dec_many(a, many_step(c))
            }
        })
    }
    fn apply(s: &mut Self::S, o: &Self::O) {
        s.apply(o.clone())
    }
    fn merge(s: &mut Self::S, o: &Self::S) {
        s.merge(o.clone())
    }
    fn reads(s: &Self::S) -> String {
        format!("{}", s.read())
    }
    fn cmd_name(c: Cmd) -> String {
        match c.k {
            INC => "inc(actor)".into(),
            INC_MANY => format!("inc_many(actor, {})", many_step(c)),
            DEC => "dec(actor)".into(),
            _ => format!("dec_many(actor, {})", many_step(c)),
        }
    }
    fn spec(recs: &[Rec<Self>], k: Mask, _f: Form) -> Option<String> {
        let sel = |pos: bool| recs.iter().enumerate().filter(move |(i, r)| k >> i & 1 == 1 && matches!(r.op.dir, pncounter::Dir::Pos) == pos).map(|(_, r)| r.op.dot);
        let (p, n) = (counter_sum(sel(true)) as i128, counter_sum(sel(false)) as i128);
        let full = k == (1u32 << recs.len()) - 1;
        if full {
            let want: i128 = recs.iter().map(|r| [1i128, many_step(r.cmd) as i128, -1, -(many_step(r.cmd) as i128)][r.cmd.k as usize]).sum();
            if want != p - n {
                return Some(format!("{} (all ops arrived: expected {})", p - n, want));
            }
        }
        Some(format!("{}", p - n))
    }
    fn validate_op(s: &Self::S, o: &Self::O) -> Result<(), String> {
        s.validate_op(o).map_err(|e| format!("{:?}", e))
    }
    fn validate_merge(a: &Self::S, b: &Self::S) -> Result<(), String> {
        a.validate_merge(b).map_err(|e| format!("{:?}", e))
    }
    fn reset_remove(s: &mut Self::S, c: &VClock<u8>) {
        s.reset_remove(c)
    }
    fn rr_view(s: &Self::S) -> RrView {
        let (p, n) = pn_clocks(s);
        let mut elems = vec![];
        for (name, c) in [("n", n), ("p", p)] {
            if !c.is_empty() {
                elems.push((name.to_string(), cv(&c), None));
            }
        }
        RrView { clock: vec![], elems, pending: vec![] }
    }
    serde_impl!(PNCounter<u8>, pncounter::Op<u8>);
}

// -------------------------------------------------------------------------------------------- GSet
pub struct Gs;
impl Sys for Gs {
    type S = GSet<u8>;
    type O = u8;
    const NAME: &'static str = "gset";
    const VIS_ANY_K: bool = true;
    fn init() -> Self::S {
        GSet::new()
    }
    fn gen(_h: &[Rec<Self>], _s: &Self::S, _a: u8, c: Cmd, _idx: usize) -> Option<u8> {
        Some(c.x)
    }
    fn apply(s: &mut Self::S, o: &u8) {
        s.apply(*o)
    }
    fn merge(s: &mut Self::S, o: &Self::S) {
        s.merge(o.clone())
    }
    fn reads(s: &Self::S) -> String {
        let r: BTreeSet<u8> = s.read();
        for x in 0..4u8 {
            if s.contains(&x) != r.contains(&x) {
                return format!("!contains({}) disagrees with read() {:?}", x, r);
            }
        }
        format!("{:?}", r)
    }
    fn cmd_name(c: Cmd) -> String {
        format!("insert({})", c.x)
    }
    fn spec(recs: &[Rec<Self>], k: Mask, _f: Form) -> Option<String> {
        let s: BTreeSet<u8> = recs.iter().enumerate().filter(|(i, _)| k >> i & 1 == 1).map(|(_, r)| r.op).collect();
        Some(format!("{:?}", s))
    }
    fn validate_op(s: &Self::S, o: &u8) -> Result<(), String> {
        s.validate_op(o).map_err(|e| format!("{:?}", e))
    }
    fn validate_merge(a: &Self::S, b: &Self::S) -> Result<(), String> {
        a.validate_merge(b).map_err(|e| format!("{:?}", e))
    }
    serde_impl!(GSet<u8>, u8);
}

// ------------------------------------------------------------------------------------------ LWWReg
pub struct Lww;
pub type Marker = (u64, u8);
pub const UPDATE: u8 = 0; // marker (rank x, op index): unique
pub const UPDATE_REUSED: u8 = 1; // marker (rank x, 0): reused when two ops pick the same rank (misuse)
impl Sys for Lww {
    type S = LWWReg<u8, Marker>;
    type O = LWWReg<u8, Marker>;
    const NAME: &'static str = "lwwreg";
    const VIS_ANY_K: bool = true;
    fn init() -> Self::S {
        LWWReg::default()
    }
    fn gen(_h: &[Rec<Self>], _s: &Self::S, _a: u8, c: Cmd, idx: usize) -> Option<Self::O> {
        let marker = if c.k == UPDATE { (c.x as u64, idx as u8 + 1) } else { (c.x as u64, 0) };
        Some(LWWReg::new(idx as u8 + 10, marker))
    }
    fn apply(s: &mut Self::S, o: &Self::O) {
        s.apply(o.clone())
    }
    fn merge(s: &mut Self::S, o: &Self::S) {
        s.merge(o.clone())
    }
    fn reads(s: &Self::S) -> String {
        format!("val={} marker={:?}", s.val, s.marker)
    }
    fn cmd_name(c: Cmd) -> String {
        if c.k == UPDATE { format!("update(<op index>+10, marker ({}, <op index>+1))", c.x) } else { format!("update(<op index>+10, marker ({}, 0)) [marker possibly reused]", c.x) }
    }
    fn spec(recs: &[Rec<Self>], k: Mask, _f: Form) -> Option<String> {
        let mut best: (Marker, u8) = ((0, 0), 0);
        let mut ambiguous = false;
        for (i, r) in recs.iter().enumerate() {
            if k >> i & 1 == 1 {
                if r.op.marker > best.0 {
                    best = (r.op.marker, r.op.val);
                    ambiguous = false;
                } else if r.op.marker == best.0 && r.op.val != best.1 {
                    ambiguous = true;
                }
            }
        }
        if ambiguous {
            return None; // reused greatest marker: the read is not determined (the misuse validate_* must flag)
        }
        Some(format!("val={} marker={:?}", best.1, best.0))
    }
    fn validate_op(s: &Self::S, o: &Self::O) -> Result<(), String> {
        let a = s.validate_op(o).map_err(|e| format!("{:?}", e));
        let b = s.validate_update(&o.val, &o.marker).map_err(|e| format!("{:?}", e));
        if a != b {
            return Err(format!("validate_op {:?} disagrees with validate_update {:?}", a, b));
        }
        a
    }
    fn expect_valid(recs: &[Rec<Self>], k: Mask, j: usize) -> Expect {
        // the register's current (marker, value) is determined by K unless the greatest marker is reused
        match Self::spec(recs, k, Form::Vis) {
            None => Expect::Either,
            Some(_) => {
                let mut best: (Marker, u8) = ((0, 0), 0);
                for (i, r) in recs.iter().enumerate() {
                    if k >> i & 1 == 1 && r.op.marker > best.0 {
                        best = (r.op.marker, r.op.val);
                    }
                }
                if recs[j].op.marker == best.0 && recs[j].op.val != best.1 {
                    Expect::Reject
                } else {
                    Expect::Accept
                }
            }
        }
    }
    fn validate_merge(a: &Self::S, b: &Self::S) -> Result<(), String> {
        a.validate_merge(b).map_err(|e| format!("{:?}", e))
    }
    fn double_spent(a: &Self::S, b: &Self::S) -> bool {
        a.marker == b.marker && a.val != b.val
    }
    serde_impl!(LWWReg<u8, Marker>, LWWReg<u8, Marker>);
}

// ----------------------------------------------------------------------------------- MaxReg / MinReg
pub struct Mx;
pub struct Mn;
fn reg_val(c: Cmd) -> i8 {
    [-2i8, -1, 1, 2][c.x as usize]
}
impl Sys for Mx {
    type S = MaxReg<i8>;
    type O = i8;
    const NAME: &'static str = "maxreg";
    const VIS_ANY_K: bool = true;
    fn init() -> Self::S {
        MaxReg::default()
    }
    fn gen(_h: &[Rec<Self>], s: &Self::S, _a: u8, c: Cmd, _idx: usize) -> Option<i8> {
        Some(s.write(reg_val(c)))
    }
    fn apply(s: &mut Self::S, o: &i8) {
        s.apply(*o)
    }
    fn merge(s: &mut Self::S, o: &Self::S) {
        s.merge(o.clone())
    }
    fn reads(s: &Self::S) -> String {
        format!("{}", s.read())
    }
    fn cmd_name(c: Cmd) -> String {
        format!("write({})", reg_val(c))
    }
    fn spec(recs: &[Rec<Self>], k: Mask, _f: Form) -> Option<String> {
        Some(format!("{}", recs.iter().enumerate().filter(|(i, _)| k >> i & 1 == 1).map(|(_, r)| r.op).chain(std::iter::once(0)).max().unwrap()))
    }
    fn validate_op(s: &Self::S, o: &i8) -> Result<(), String> {
        s.validate_op(o).map_err(|e| format!("{:?}", e))
    }
    fn validate_merge(a: &Self::S, b: &Self::S) -> Result<(), String> {
        a.validate_merge(b).map_err(|e| format!("{:?}", e))
    }
    serde_impl!(MaxReg<i8>, i8);
}
impl Sys for Mn {
    type S = MinReg<i8>;
    type O = i8;
    const NAME: &'static str = "minreg";
    const VIS_ANY_K: bool = true;
    fn init() -> Self::S {
        MinReg::default()
    }
    fn gen(_h: &[Rec<Self>], s: &Self::S, _a: u8, c: Cmd, _idx: usize) -> Option<i8> {
        Some(s.write(reg_val(c)))
    }
    fn apply(s: &mut Self::S, o: &i8) {
        s.apply(*o)
    }
    fn merge(s: &mut Self::S, o: &Self::S) {
        s.merge(o.clone())
    }
    fn reads(s: &Self::S) -> String {
        format!("{}", s.read())
    }
    fn cmd_name(c: Cmd) -> String {
        format!("write({})", reg_val(c))
    }
    fn spec(recs: &[Rec<Self>], k: Mask, _f: Form) -> Option<String> {
        Some(format!("{}", recs.iter().enumerate().filter(|(i, _)| k >> i & 1 == 1).map(|(_, r)| r.op).chain(std::iter::once(0)).min().unwrap()))
    }
    fn validate_op(s: &Self::S, o: &i8) -> Result<(), String> {
        s.validate_op(o).map_err(|e| format!("{:?}", e))
    }
    fn validate_merge(a: &Self::S, b: &Self::S) -> Result<(), String> {
        a.validate_merge(b).map_err(|e| format!("{:?}", e))
    }
    serde_impl!(MinReg<i8>, i8);
}
