//! Map<u8, Map<u8, Orswot<u8,u8>, u8>, u8>  — Map nested in Map (C05 "at every nesting depth")
use super::map_mv::*;
use super::orswot::{orswot_residue, orswot_rr_view};
use super::*;
use crate::engine::*;
use crdts::{map, orswot, CmRDT, CvRDT, Map, Orswot, ResetRemove};
use std::collections::{BTreeMap, BTreeSet};

pub struct MapMap;
pub type Inner = Map<u8, Orswot<u8, u8>, u8>;
pub type S = Map<u8, Inner, u8>;
pub type O = map::Op<u8, Inner, u8>;

pub const ADD: u8 = 0; // y = inner*2 + member
pub const RM_MEMBER: u8 = 1; // y = inner*2 + member
pub const RM_INNER: u8 = 2; // y = inner
pub const RM_OUTER: u8 = 3;
pub const RM_INNER_CTX: u8 = 4; // y = inner; remove context = the inner map's read_ctx()
pub const RM_OUTER_CTX: u8 = 5; // remove context = the outer map's read_ctx()
pub const KEYS: u8 = 2;

fn inner_content(m: &Inner) -> BTreeMap<u8, BTreeSet<u8>> {
    m.iter().map(|e| (*e.val.0, e.val.1.read().val.into_iter().collect())).collect()
}
fn content(s: &S) -> String {
    let m: BTreeMap<u8, BTreeMap<u8, BTreeSet<u8>>> = s.iter().map(|e| (*e.val.0, inner_content(e.val.1))).collect();
    for k in 0..KEYS {
        let g = s.get(&k).val.map(|v| inner_content(&v));
        if g != m.get(&k).cloned() {
            return format!("!get({}) = {:?} disagrees with iter() = {:?}", k, g, m);
        }
    }
    format!("{:?}", m)
}
fn inner_rr_view(m: &Inner) -> RrView {
    let elems = m.iter().map(|c| (c.val.0.to_string(), cv(&c.rm_clock), Some(Box::new(orswot_rr_view(c.val.1))))).collect();
    RrView { clock: cv(&m.read_ctx().add_clock), elems, pending: map_deferred_view(m) }
}

/// (outer key, inner key, what) of an op
enum Kind<'a> {
    Add(u8, u8, &'a Vec<u8>),
    RmMember(u8, u8, &'a Vec<u8>, &'a crdts::VClock<u8>),
    RmInner(u8, &'a BTreeSet<u8>, &'a crdts::VClock<u8>),
    RmOuter(&'a BTreeSet<u8>, &'a crdts::VClock<u8>),
}
fn kind(o: &O) -> Kind<'_> {
    match o {
        map::Op::Rm { clock, keyset } => Kind::RmOuter(keyset, clock),
        map::Op::Up { key, op, .. } => match op {
            map::Op::Rm { clock, keyset } => Kind::RmInner(*key, keyset, clock),
            map::Op::Up { key: ik, op, .. } => match op {
                orswot::Op::Add { members, .. } => Kind::Add(*key, *ik, members),
                orswot::Op::Rm { clock, members } => Kind::RmMember(*key, *ik, members, clock),
            },
        },
    }
}

impl Sys for MapMap {
    type S = S;
    type O = O;
    const NAME: &'static str = "map_map_orswot";

    fn init() -> S {
        Map::new()
    }
    fn gen(_h: &[Rec<Self>], s: &S, a: u8, c: Cmd, _idx: usize) -> Option<O> {
        let (inner, member) = (c.y / 2, c.y % 2);
        Some(match c.k {
            ADD => s.update(c.x, s.get(&c.x).derive_add_ctx(a), |m, ctx| m.update(inner, ctx, |set, ctx| set.add(member, ctx))),
            RM_MEMBER => s.update(c.x, s.get(&c.x).derive_add_ctx(a), |m, ctx| m.update(inner, ctx, |set, _| set.rm(member, set.contains(&member).derive_rm_ctx()))),
            RM_INNER => s.update(c.x, s.get(&c.x).derive_add_ctx(a), |m, _ctx| m.rm(c.y, m.get(&c.y).derive_rm_ctx())),
            RM_OUTER => s.rm(c.x, s.get(&c.x).derive_rm_ctx()),
            RM_INNER_CTX => s.update(c.x, s.get(&c.x).derive_add_ctx(a), |m, _ctx| m.rm(c.y, m.read_ctx().derive_rm_ctx())),
            RM_OUTER_CTX => s.rm(c.x, s.read_ctx().derive_rm_ctx()),
            _ => unreachable!(),
        })
    }
    fn apply(s: &mut S, o: &O) {
        s.apply(o.clone())
    }
    fn merge(s: &mut S, o: &S) {
        s.merge(o.clone())
    }
    fn reads(s: &S) -> String {
        // contexts of the nested maps and sets are part of the reads (see map_or.rs)
        let nested: Vec<(u8, String, Vec<(u8, String)>)> = s
            .iter()
            .map(|e| (*e.val.0, map_top_reads(e.val.1, KEYS), e.val.1.iter().map(|e2| (*e2.val.0, super::orswot::orswot_reads(e2.val.1))).collect()))
            .collect();
        format!("{} {} nested={:?}", content(s), map_top_reads(s, KEYS), nested)
    }
    fn content(s: &S) -> String {
        content(s)
    }
    fn cmd_name(c: Cmd) -> String {
        let (inner, member) = (c.y / 2, c.y % 2);
        match c.k {
            ADD => format!("update({k}, ctx, |m, c| m.update({i}, c, |set, c| set.add({m}, c)))", k = c.x, i = inner, m = member),
            RM_MEMBER => format!("update({k}, ctx, |m, c| m.update({i}, c, |set, _| set.rm({m}, set.contains({m}).derive_rm_ctx())))", k = c.x, i = inner, m = member),
            RM_INNER => format!("update({k}, ctx, |m, _| m.rm({i}, m.get({i}).derive_rm_ctx()))", k = c.x, i = c.y),
            RM_OUTER => format!("rm({k}, get({k}).derive_rm_ctx())", k = c.x),
            RM_INNER_CTX => format!("update({k}, ctx, |m, _| m.rm({i}, m.read_ctx().derive_rm_ctx()))", k = c.x, i = c.y),
            RM_OUTER_CTX => format!("rm({k}, read_ctx().derive_rm_ctx())", k = c.x),
            _ => "?".into(),
        }
    }
    fn rust_type() -> &'static str {
        "Map<u8, Map<u8, Orswot<u8, u8>, u8>, u8>"
    }
    fn rust_gen(c: Cmd, a: u8, _idx: usize) -> String {
        let (inner, member) = (c.y / 2, c.y % 2);
        match c.k {
            ADD => format!("s.update({k}u8, s.get(&{k}).derive_add_ctx({a}), |m, c| m.update({i}u8, c, |set, c| set.add({mm}u8, c)))", k = c.x, a = a, i = inner, mm = member),
            RM_MEMBER => format!("s.update({k}u8, s.get(&{k}).derive_add_ctx({a}), |m, c| m.update({i}u8, c, |set, _c| set.rm({mm}u8, set.contains(&{mm}).derive_rm_ctx())))", k = c.x, a = a, i = inner, mm = member),
            RM_INNER => format!("s.update({k}u8, s.get(&{k}).derive_add_ctx({a}), |m, _c| m.rm({i}u8, m.get(&{i}).derive_rm_ctx()))", k = c.x, a = a, i = c.y),
            RM_INNER_CTX => format!("s.update({k}u8, s.get(&{k}).derive_add_ctx({a}), |m, _c| m.rm({i}u8, m.read_ctx().derive_rm_ctx()))", k = c.x, a = a, i = c.y),
            RM_OUTER_CTX => format!("s.rm({k}u8, s.read_ctx().derive_rm_ctx())", k = c.x),
            _ => format!("s.rm({k}u8, s.get(&{k}).derive_rm_ctx())", k = c.x),
        }
    }
    fn rust_reads() -> &'static str {
        "let v: Vec<(u8, Vec<(u8, Vec<u8>)>)> = s.iter().map(|c| (*c.val.0, c.val.1.iter().map(|e| { let mut x: Vec<u8> = e.val.1.read().val.into_iter().collect(); x.sort(); (*e.val.0, x) }).collect())).collect(); format!(\"outer -> inner -> members {:?} clock {:?}\", v, s.read_ctx().add_clock)"
    }
    fn classes(_c: Cmd) -> (Class, Class) {
        (Class::Key, Class::None)
    }
    fn is_remove(c: Cmd) -> bool {
        c.k != ADD
    }
    fn spec(recs: &[Rec<Self>], k: Mask, form: Form) -> Option<String> {
        let mut out: BTreeMap<u8, BTreeMap<u8, BTreeSet<u8>>> = BTreeMap::new();
        let dot_of = |i: usize| match &recs[i].op {
            map::Op::Up { dot, .. } => Some(*dot),
            _ => None,
        };
        let covered = |i: usize, j: usize, clock: &crdts::VClock<u8>| match form {
            Form::Vis => recs[j].vis >> i & 1 == 1,
            Form::Cov => covers(clock, &dot_of(i).unwrap()),
        };
        for (i, r) in recs.iter().enumerate() {
            if k >> i & 1 == 0 {
                continue;
            }
            let (ok, target) = match kind(&r.op) {
                Kind::Add(ok, ik, ms) => (ok, Some((ik, Some(ms)))),
                Kind::RmMember(ok, ik, _, _) => (ok, Some((ik, None))),
                Kind::RmInner(ok, _, _) => (ok, None),
                Kind::RmOuter(..) => continue,
            };
            // alive w.r.t. outer removes?
            let dead_outer = recs.iter().enumerate().any(|(j, r2)| k >> j & 1 == 1 && matches!(kind(&r2.op), Kind::RmOuter(ks, c) if ks.contains(&ok) && covered(i, j, c)));
            if dead_outer {
                continue;
            }
            let oe = out.entry(ok).or_default();
            if let Some((ik, ms)) = target {
                let dead_inner = recs.iter().enumerate().any(|(j, r2)| k >> j & 1 == 1 && matches!(kind(&r2.op), Kind::RmInner(ok2, ks, c) if ok2 == ok && ks.contains(&ik) && covered(i, j, c)));
                if dead_inner {
                    continue;
                }
                let ie = oe.entry(ik).or_default();
                if let Some(ms) = ms {
                    for m in ms {
                        let dead_m = recs.iter().enumerate().any(|(j, r2)| k >> j & 1 == 1 && matches!(kind(&r2.op), Kind::RmMember(ok2, ik2, ms2, c) if ok2 == ok && ik2 == ik && ms2.contains(m) && covered(i, j, c)));
                        if !dead_m {
                            ie.insert(*m);
                        }
                    }
                }
            }
        }
        Some(format!("{:?}", out))
    }
    fn ctx_check(recs: &[Rec<Self>], k: Mask, s: &S, actors: u8) -> Vec<String> {
        map_ctx_check(recs, k, s, actors, KEYS)
    }
    fn validate_op(s: &S, o: &O) -> Result<(), String> {
        s.validate_op(o).map_err(|e| format!("{:?}", e))
    }
    fn expect_valid(recs: &[Rec<Self>], k: Mask, j: usize) -> Expect {
        map_validate_expect(recs, k, j)
    }
    fn validate_merge(a: &S, b: &S) -> Result<(), String> {
        a.validate_merge(b).map_err(|e| format!("{:?}", e))
    }
    fn double_spent(a: &S, b: &S) -> bool {
        map_double_spent(a, b)
    }
    fn reset_remove(s: &mut S, c: &crdts::VClock<u8>) {
        s.reset_remove(c)
    }
    fn rr_view(s: &S) -> RrView {
        let elems = s.iter().map(|c| (c.val.0.to_string(), cv(&c.rm_clock), Some(Box::new(inner_rr_view(c.val.1))))).collect();
        RrView { clock: cv(&s.read_ctx().add_clock), elems, pending: map_deferred_view(s) }
    }
    fn to_json(s: &S) -> Result<String, String> {
        serde_json::to_string(s).map_err(|e| e.to_string())
    }
    fn from_json(j: &str) -> Result<S, String> {
        serde_json::from_str(j).map_err(|e| e.to_string())
    }
    fn op_roundtrip(o: &O) -> Result<O, String> {
        let j = serde_json::to_string(o).map_err(|e| e.to_string())?;
        serde_json::from_str(&j).map_err(|e| e.to_string())
    }
    fn pending(s: &S) -> usize {
        s.verif_deferred().len() + s.iter().map(|e| e.val.1.verif_deferred().len() + e.val.1.iter().map(|e2| e2.val.1.verif_deferred().len()).sum::<usize>()).sum::<usize>()
    }
    fn residue(s: &S) -> Vec<String> {
        let mut out: Vec<String> = map_deferred_view(s).into_iter().map(|(c, ks)| format!("pending outer key remove {:?} of {:?}", c, ks)).collect();
        for e in s.iter() {
            if e.rm_clock.is_empty() {
                out.push(format!("outer key {} with empty witness", e.val.0));
            }
            for (c, ks) in map_deferred_view(e.val.1) {
                out.push(format!("outer key {}: pending inner key remove {:?} of {:?}", e.val.0, c, ks));
            }
            for e2 in e.val.1.iter() {
                if e2.rm_clock.is_empty() {
                    out.push(format!("outer key {} inner key {} with empty witness", e.val.0, e2.val.0));
                }
                out.extend(orswot_residue(e2.val.1, &format!("outer key {} inner key {}: ", e.val.0, e2.val.0)));
            }
        }
        out
    }
}
