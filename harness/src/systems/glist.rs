//! GList<u8> (grow-only list, order-free delivery, mergeable)
use super::*;
use crate::engine::*;
use crdts::{glist, CmRDT, CvRDT, GList};

pub struct Gl;
pub type S = GList<u8>;
pub type O = glist::Op<u8>;

pub const INSERT: u8 = 0; // insert(x, <op index>)          (x <= len)
pub const AFTER: u8 = 1; // insert_after(Some(id of x-th), <op index>)
pub const BEFORE: u8 = 2; // insert_before(Some(id of x-th), <op index>)

pub fn seq(s: &S) -> Vec<u8> {
    s.read::<Vec<&u8>>().into_iter().cloned().collect()
}

impl Sys for Gl {
    type S = S;
    type O = O;
    const NAME: &'static str = "glist";
    const VIS_ANY_K: bool = true;

    fn init() -> S {
        GList::new()
    }
    fn gen(_h: &[Rec<Self>], s: &S, _a: u8, c: Cmd, idx: usize) -> Option<O> {
        let x = c.x as usize;
        match c.k {
            INSERT if x <= s.len() => Some(s.insert(x, idx as u8)),
            AFTER if x < s.len() => Some(s.insert_after(s.get(x), idx as u8)),
            BEFORE if x < s.len() => Some(s.insert_before(s.get(x), idx as u8)),
            _ => None,
        }
    }
    fn apply(s: &mut S, o: &O) {
        s.apply(o.clone())
    }
    fn merge(s: &mut S, o: &S) {
        s.merge(o.clone())
    }
    fn reads(s: &S) -> String {
        let v = seq(s);
        let it: Vec<u8> = s.iter().map(|id| *id.value()).collect();
        let g: Vec<u8> = (0..v.len() + 1).filter_map(|i| s.get(i).map(|id| *id.value())).collect();
        if it != v || g != v || s.len() != v.len() || s.is_empty() != v.is_empty() || s.first().map(|i| i.value()) != v.first() || s.last().map(|i| i.value()) != v.last() {
            return format!("!read entry points disagree: read={:?} iter={:?} get={:?}", v, it, g);
        }
        format!("{:?}", v)
    }
    fn content(s: &S) -> String {
        let mut v = seq(s);
        v.sort();
        for w in v.windows(2) {
            if w[0] == w[1] {
                return format!("!element {} appears twice", w[0]);
            }
        }
        format!("{:?}", v)
    }
    fn cmd_name(c: Cmd) -> String {
        match c.k {
            INSERT => format!("insert({}, <op index>)", c.x),
            AFTER => format!("insert_after(get({}), <op index>)", c.x),
            BEFORE => format!("insert_before(get({}), <op index>)", c.x),
            _ => "?".into(),
        }
    }
    fn spec(recs: &[Rec<Self>], k: Mask, _f: Form) -> Option<String> {
        let mut v: Vec<u8> = recs.iter().enumerate().filter(|(i, _)| k >> i & 1 == 1).map(|(_, r)| match &r.op {
            glist::Op::Insert { id } => *id.value(),
        }).collect();
        v.sort();
        Some(format!("{:?}", v))
    }
    fn validate_op(s: &S, o: &O) -> Result<(), String> {
        s.validate_op(o).map_err(|e| format!("{:?}", e))
    }
    fn validate_merge(a: &S, b: &S) -> Result<(), String> {
        a.validate_merge(b).map_err(|e| format!("{:?}", e))
    }
    fn to_json(s: &S) -> Result<String, String> {
        serde_json::to_string(s).map_err(|e| e.to_string())
    }
    fn from_json(j: &str) -> Result<S, String> {
        serde_json::from_str(j).map_err(|e| e.to_string())
    }
    fn op_roundtrip(o: &O) -> Result<O, String> {
        let j = serde_json::to_string(o).map_err(|e| e.to_string())?;
        serde_json::from_str(&j).map_err(|e| e.to_string())
    }
}
