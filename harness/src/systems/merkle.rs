//! MerkleReg<String>
use super::*;
use crate::engine::*;
use crdts::merkle_reg::{Hash, MerkleReg, Node};
use crdts::{CmRDT, CvRDT};
use std::collections::BTreeSet;

pub struct Mk;
pub type S = MerkleReg<String>;
pub type O = Node<String>;

pub const WRITE: u8 = 0; // write("v<idx>", children = hashes of the ops in bitmask x)   (arbitrary DAGs)
pub const WRITE_HEADS: u8 = 1; // write("v<idx>", read().hashes())                      (DAGs from real reads)

fn hashes(recs: &[Rec<Mk>]) -> Vec<Hash> {
    recs.iter().map(|r| r.op.hash()).collect()
}
/// ops of K whose whole ancestry is in K
fn visible(recs: &[Rec<Mk>], k: Mask) -> Mask {
    let hs = hashes(recs);
    let mut vis: Mask = 0;
    loop {
        let mut changed = false;
        for (i, r) in recs.iter().enumerate() {
            if k >> i & 1 == 1 && vis >> i & 1 == 0 {
                let ok = r.op.children.iter().all(|c| hs.iter().enumerate().any(|(j, h)| h == c && vis >> j & 1 == 1));
                if ok {
                    vis |= 1 << i;
                    changed = true;
                }
            }
        }
        if !changed {
            return vis;
        }
    }
}
fn idx_of(hs: &[Hash], h: &Hash) -> String {
    hs.iter().position(|x| x == h).map(|i| format!("n{}", i)).unwrap_or_else(|| "?".into())
}

impl Sys for Mk {
    type S = S;
    type O = O;
    const NAME: &'static str = "merkle_reg";
    const VIS_ANY_K: bool = true;

    fn init() -> S {
        MerkleReg::new()
    }
    fn gen(h: &[Rec<Self>], s: &S, _a: u8, c: Cmd, idx: usize) -> Option<O> {
        let children: BTreeSet<Hash> = match c.k {
            WRITE => h.iter().enumerate().filter(|(i, _)| c.x >> i & 1 == 1).map(|(_, r)| r.op.hash()).collect(),
            _ => s.read().hashes(),
        };
        Some(s.write(format!("v{}", idx), children))
    }
    fn expand(cmds: &[Cmd], i: usize) -> Vec<Cmd> {
        let mut out = vec![];
        for c in cmds {
            if c.k == WRITE {
                for m in 0..(1u32 << i) {
                    out.push(cmd(WRITE, m as u8, 0));
                }
            } else {
                out.push(*c);
            }
        }
        out
    }
    fn apply(s: &mut S, o: &O) {
        s.apply(o.clone())
    }
    fn merge(s: &mut S, o: &S) {
        s.merge(o.clone())
    }
    fn reads(s: &S) -> String {
        // content-addressed, so printing values is canonical
        let r = s.read();
        let mut vals: Vec<String> = r.values().cloned().collect();
        vals.sort();
        let hv: BTreeSet<Hash> = r.hashes();
        let hn: BTreeSet<Hash> = r.hashes_and_nodes().map(|(h, _)| h).collect();
        let nodes_ok = r.nodes().all(|n| hv.contains(&n.hash()));
        if hv != hn || !nodes_ok || r.is_empty() != vals.is_empty() {
            return "!Content accessors disagree".into();
        }
        let mut all: Vec<String> = s.all_nodes().map(|n| n.value.clone()).collect();
        all.sort();
        format!("heads={:?} nodes={} orphans={} all={:?}", vals, s.num_nodes(), s.num_orphans(), all)
    }
    fn content(s: &S) -> String {
        Self::reads(s)
    }
    fn cmd_name(c: Cmd) -> String {
        if c.k == WRITE {
            format!("write(\"v<idx>\", children = nodes {:?})", (0..8).filter(|i| c.x >> i & 1 == 1).collect::<Vec<_>>())
        } else {
            "write(\"v<idx>\", read().hashes())".into()
        }
    }
    fn spec(recs: &[Rec<Self>], k: Mask, _f: Form) -> Option<String> {
        let hs = hashes(recs);
        let vis = visible(recs, k);
        let mut heads = vec![];
        let mut all = vec![];
        for (i, r) in recs.iter().enumerate() {
            if vis >> i & 1 == 1 {
                all.push(r.op.value.clone());
                let is_child = recs.iter().enumerate().any(|(j, r2)| vis >> j & 1 == 1 && r2.op.children.contains(&hs[i]));
                if !is_child {
                    heads.push(r.op.value.clone());
                }
            }
        }
        heads.sort();
        all.sort();
        Some(format!("heads={:?} nodes={} orphans={} all={:?}", heads, vis.count_ones(), (k & !vis).count_ones(), all))
    }
    /// node / children / parents accessors against the model
    fn ctx_check(recs: &[Rec<Self>], k: Mask, s: &S, _actors: u8) -> Vec<String> {
        let mut out = vec![];
        let hs = hashes(recs);
        let vis = visible(recs, k);
        for (i, r) in recs.iter().enumerate() {
            let known = k >> i & 1 == 1;
            if s.node(hs[i]).is_some() != known {
                out.push(format!("node(n{}) present={} but received={}", i, s.node(hs[i]).is_some(), known));
            }
            let ch: BTreeSet<String> = s.children(hs[i]).hashes().iter().map(|h| idx_of(&hs, h)).collect();
            let want_ch: BTreeSet<String> = if vis >> i & 1 == 1 { r.op.children.iter().map(|h| idx_of(&hs, h)).collect() } else { BTreeSet::new() };
            if ch != want_ch {
                out.push(format!("children(n{}) = {:?} expected {:?}", i, ch, want_ch));
            }
            let pa: BTreeSet<String> = s.parents(hs[i]).hashes().iter().map(|h| idx_of(&hs, h)).collect();
            let want_pa: BTreeSet<String> = recs.iter().enumerate().filter(|(j, r2)| vis >> j & 1 == 1 && r2.op.children.contains(&hs[i])).map(|(j, _)| format!("n{}", j)).collect();
            if pa != want_pa {
                out.push(format!("parents(n{}) = {:?} expected {:?}", i, pa, want_pa));
            }
        }
        // writing on top of the heads read replaces them
        let heads = s.read().hashes();
        if !heads.is_empty() {
            let n = s.write("fresh".to_string(), heads);
            let mut s2 = s.clone();
            s2.apply(n.clone());
            let r: Vec<String> = s2.read().values().cloned().collect();
            if r != vec!["fresh".to_string()] {
                out.push(format!("after writing on the heads read, read() = {:?}", r));
            }
        }
        out
    }
    fn validate_op(s: &S, o: &O) -> Result<(), String> {
        s.validate_op(o).map_err(|e| format!("{:?}", e).chars().take(30).collect())
    }
    fn expect_valid(recs: &[Rec<Self>], k: Mask, j: usize) -> Expect {
        let hs = hashes(recs);
        let vis = visible(recs, k);
        let ok = recs[j].op.children.iter().all(|c| hs.iter().enumerate().any(|(i, h)| h == c && vis >> i & 1 == 1));
        if ok {
            Expect::Accept
        } else {
            Expect::Reject
        }
    }
    fn validate_merge(a: &S, b: &S) -> Result<(), String> {
        a.validate_merge(b).map_err(|e| format!("{:?}", e))
    }
    fn to_json(s: &S) -> Result<String, String> {
        serde_json::to_string(s).map_err(|e| e.to_string())
    }
    fn from_json(j: &str) -> Result<S, String> {
        serde_json::from_str(j).map_err(|e| e.to_string())
    }
    fn op_roundtrip(o: &O) -> Result<O, String> {
        let j = serde_json::to_string(o).map_err(|e| e.to_string())?;
        serde_json::from_str(&j).map_err(|e| e.to_string())
    }
    fn pending(s: &S) -> usize {
        s.num_orphans()
    }
}
