pub mod glist;
pub mod list;
pub mod map_map;
pub mod map_mv;
pub mod map_or;
pub mod merkle;
pub mod mvreg;
pub mod orswot;
pub mod simple;

use crdts::{Dot, VClock};

pub type Clk = Vec<(u8, u64)>;

pub fn cv(c: &VClock<u8>) -> Clk {
    c.dots.iter().map(|(a, n)| (*a, *n)).collect()
}
pub fn vc(c: &VClock<u8>) -> String {
    format!("{:?}", c.dots)
}
pub fn mk_clock(c: &[(u8, u64)]) -> VClock<u8> {
    let mut v = VClock::new();
    for (a, n) in c {
        if *n > 0 {
            v.dots.insert(*a, *n);
        }
    }
    v
}
pub fn covers(c: &VClock<u8>, d: &Dot<u8>) -> bool {
    c.get(&d.actor) >= d.counter
}
/// reference clock arithmetic on sorted vectors
pub fn clk_get(c: &Clk, a: u8) -> u64 {
    c.iter().find(|(x, _)| *x == a).map(|(_, n)| *n).unwrap_or(0)
}
pub fn clk_sub(c: &Clk, by: &Clk) -> Clk {
    c.iter().filter(|(a, n)| *n > clk_get(by, *a)).cloned().collect()
}
pub fn clk_join(a: &Clk, b: &Clk) -> Clk {
    let mut m: std::collections::BTreeMap<u8, u64> = a.iter().cloned().collect();
    for (x, n) in b {
        let e = m.entry(*x).or_insert(0);
        *e = (*e).max(*n);
    }
    m.into_iter().filter(|(_, n)| *n > 0).collect()
}
pub fn clk_add_dot(c: &mut Clk, a: u8, n: u64) {
    *c = clk_join(c, &vec![(a, n)]);
}
