//! List<u8 element, u8 actor> (causal delivery required)
use super::*;
use crate::engine::*;
use crdts::{list, CmRDT, List};

pub struct Li;
pub type S = List<u8, u8>;
pub type O = list::Op<u8, u8>;

pub const INSERT: u8 = 0; // insert_index(x, <op index>, actor)
pub const APPEND: u8 = 1;
pub const DELETE: u8 = 2; // delete_index(x, actor)

pub fn seq(s: &S) -> Vec<u8> {
    s.read::<Vec<&u8>>().into_iter().cloned().collect()
}

impl Sys for Li {
    type S = S;
    type O = O;
    const NAME: &'static str = "list";
    const HAS_MERGE: bool = false;

    fn init() -> S {
        List::new()
    }
    fn gen(_h: &[Rec<Self>], s: &S, a: u8, c: Cmd, idx: usize) -> Option<O> {
        match c.k {
            INSERT => Some(s.insert_index(c.x as usize, idx as u8, a)),
            APPEND => Some(s.append(idx as u8, a)),
            DELETE => s.delete_index(c.x as usize, a),
            _ => unreachable!(),
        }
    }
    fn apply(s: &mut S, o: &O) {
        s.apply(o.clone())
    }
    fn reads(s: &S) -> String {
        let v = seq(s);
        let it: Vec<u8> = s.iter().cloned().collect();
        let ent: Vec<u8> = s.iter_entries().map(|(_, v)| *v).collect();
        let pos: Vec<u8> = (0..v.len() + 1).filter_map(|i| s.position(i).cloned()).collect();
        if it != v || ent != v || pos != v || s.len() != v.len() || s.is_empty() != v.is_empty() || s.first() != v.first() || s.last() != v.last() {
            return format!("!read entry points disagree: read={:?} iter={:?} entries={:?} position={:?} len={}", v, it, ent, pos, s.len());
        }
        for (i, (id, _)) in s.iter_entries().enumerate() {
            if s.position_entry(id) != Some(i) || s.get(id) != Some(&v[i]) {
                return format!("!position_entry/get disagree at index {}", i);
            }
        }
        format!("{:?}", v)
    }
    fn content(s: &S) -> String {
        let mut v = seq(s);
        v.sort();
        for w in v.windows(2) {
            if w[0] == w[1] {
                return format!("!element {} appears twice", w[0]);
            }
        }
        format!("{:?}", v)
    }
    fn cmd_name(c: Cmd) -> String {
        match c.k {
            INSERT => format!("insert_index({}, <op index>, actor)", c.x),
            APPEND => "append(<op index>, actor)".into(),
            DELETE => format!("delete_index({}, actor)", c.x),
            _ => "?".into(),
        }
    }
    fn rust_type() -> &'static str {
        "List<u8, u8>"
    }
    fn rust_gen(c: Cmd, a: u8, idx: usize) -> String {
        match c.k {
            INSERT => format!("s.insert_index({}, {}u8, {}u8)", c.x, idx, a),
            APPEND => format!("s.append({}u8, {}u8)", idx, a),
            _ => format!("s.delete_index({}, {}u8).expect(\"index in range\")", c.x, a),
        }
    }
    fn rust_reads() -> &'static str {
        "format!(\"{:?}\", s.read::<Vec<&u8>>())"
    }
    fn spec(recs: &[Rec<Self>], k: Mask, _f: Form) -> Option<String> {
        let mut v = vec![];
        for (i, r) in recs.iter().enumerate() {
            if k >> i & 1 == 0 {
                continue;
            }
            if let list::Op::Insert { id, val } = &r.op {
                let deleted = recs.iter().enumerate().any(|(j, r2)| k >> j & 1 == 1 && matches!(&r2.op, list::Op::Delete { id: id2, .. } if id2 == id));
                if !deleted {
                    v.push(*val);
                }
            }
        }
        v.sort();
        Some(format!("{:?}", v))
    }
    fn validate_op(s: &S, o: &O) -> Result<(), String> {
        s.validate_op(o).map_err(|e| format!("{:?}", e))
    }
    fn expect_valid(recs: &[Rec<Self>], k: Mask, j: usize) -> Expect {
        let d = recs[j].op.dot();
        let have = recs.iter().enumerate().filter(|(i, r)| k >> i & 1 == 1 && r.op.dot().actor == d.actor).map(|(_, r)| r.op.dot().counter).max().unwrap_or(0);
        if d.counter <= have + 1 {
            Expect::Accept
        } else {
            Expect::Reject
        }
    }
    fn to_json(s: &S) -> Result<String, String> {
        serde_json::to_string(s).map_err(|e| e.to_string())
    }
    fn from_json(j: &str) -> Result<S, String> {
        serde_json::from_str(j).map_err(|e| e.to_string())
    }
    fn op_roundtrip(o: &O) -> Result<O, String> {
        let j = serde_json::to_string(o).map_err(|e| e.to_string())?;
        serde_json::from_str(&j).map_err(|e| e.to_string())
    }
}
