//! Orswot<u8 member, u8 actor>
use super::*;
use crate::engine::*;
use crdts::{orswot, CmRDT, CvRDT, Orswot, ResetRemove};
use std::collections::{BTreeMap, BTreeSet};

pub struct Or;
pub type S = Orswot<u8, u8>;
pub type O = orswot::Op<u8, u8>;

pub const ADD: u8 = 0;
pub const ADD_ALL: u8 = 1;
pub const RM_CONTAINS: u8 = 2;
pub const RM_READ: u8 = 3;
pub const RM_ALL_READ: u8 = 4;

pub const MEMBERS: u8 = 3; // domain probed by reads

/// alive add dots of member `m` in knowledge `k`, coverage or visibility form
pub fn witness(recs: &[Rec<Or>], k: Mask, m: u8, form: Form) -> Clk {
    let mut w: Clk = vec![];
    for (i, r) in recs.iter().enumerate() {
        if k >> i & 1 == 0 {
            continue;
        }
        if let orswot::Op::Add { dot, members } = &r.op {
            if !members.contains(&m) {
                continue;
            }
            let dead = recs.iter().enumerate().any(|(j, r2)| {
                k >> j & 1 == 1
                    && match &r2.op {
                        orswot::Op::Rm { clock, members } => {
                            members.contains(&m)
                                && match form {
                                    Form::Cov => covers(clock, dot),
                                    Form::Vis => r2.vis >> i & 1 == 1,
                                }
                        }
                        _ => false,
                    }
            });
            if !dead {
                clk_add_dot(&mut w, dot.actor, dot.counter);
            }
        }
    }
    w
}

pub fn add_clock(recs: &[Rec<Or>], k: Mask) -> Clk {
    let mut c: Clk = vec![];
    for (i, r) in recs.iter().enumerate() {
        if k >> i & 1 == 1 {
            if let orswot::Op::Add { dot, .. } = &r.op {
                clk_add_dot(&mut c, dot.actor, dot.counter);
            }
        }
    }
    c
}

pub fn deferred_view(s: &S) -> Vec<(Clk, Vec<String>)> {
    let mut d: Vec<(Clk, Vec<String>)> = s
        .verif_deferred()
        .into_iter()
        .map(|(c, ms)| {
            let mut ms: Vec<String> = ms.into_iter().map(|m| m.to_string()).collect();
            ms.sort();
            (cv(&c), ms)
        })
        .collect();
    d.sort();
    d
}

pub fn orswot_content(s: &S) -> String {
    let mut m: BTreeMap<u8, Clk> = BTreeMap::new();
    for x in 0..MEMBERS {
        let r = s.contains(&x);
        if r.val {
            m.insert(x, cv(&r.rm_clock));
        } else if !r.rm_clock.is_empty() {
            return format!("!absent member {} has rm_clock {}", x, vc(&r.rm_clock));
        }
    }
    let rd: BTreeSet<u8> = s.read().val.into_iter().collect();
    let it: BTreeMap<u8, Clk> = s.iter().map(|c| (*c.val, cv(&c.rm_clock))).collect();
    if rd != m.keys().cloned().collect() || it != m {
        return format!("!read entry points disagree: contains={:?} read={:?} iter={:?}", m, rd, it);
    }
    format!("{:?}", m)
}

pub fn orswot_reads(s: &S) -> String {
    let r = s.read();
    let rc = s.read_ctx();
    format!("{} read.add={} read.rm={} ctx.add={} ctx.rm={}", orswot_content(s), vc(&r.add_clock), vc(&r.rm_clock), vc(&rc.add_clock), vc(&rc.rm_clock))
}

pub fn orswot_rr_view(s: &S) -> RrView {
    let mut elems: Vec<(String, Clk, Option<Box<RrView>>)> = s.iter().map(|c| (c.val.to_string(), cv(&c.rm_clock), None)).collect();
    elems.sort();
    RrView { clock: cv(&s.clock()), elems, pending: deferred_view(s) }
}

pub fn orswot_residue(s: &S, path: &str) -> Vec<String> {
    let mut out = vec![];
    for (c, ms) in deferred_view(s) {
        out.push(format!("{}pending remove {:?} of {:?}", path, c, ms));
    }
    for c in s.iter() {
        if c.rm_clock.is_empty() {
            out.push(format!("{}member {} with empty witness", path, c.val));
        }
    }
    out
}

pub fn orswot_json_value(s: &S) -> serde_json::Value {
    let mut entries = serde_json::Map::new();
    for c in s.iter() {
        entries.insert(c.val.to_string(), serde_json::to_value(&c.rm_clock).unwrap());
    }
    serde_json::json!({"clock": serde_json::to_value(s.clock()).unwrap(), "entries": entries, "deferred": {}})
}

impl Sys for Or {
    type S = S;
    type O = O;
    const NAME: &'static str = "orswot";

    fn init() -> S {
        Orswot::new()
    }
    fn gen(_h: &[Rec<Self>], s: &S, a: u8, c: Cmd, _idx: usize) -> Option<O> {
        Some(match c.k {
            ADD => s.add(c.x, s.read_ctx().derive_add_ctx(a)),
            ADD_ALL => s.add_all(vec![0u8, 1u8], s.read_ctx().derive_add_ctx(a)),
            RM_CONTAINS => s.rm(c.x, s.contains(&c.x).derive_rm_ctx()),
            RM_READ => s.rm(c.x, s.read().derive_rm_ctx()),
            RM_ALL_READ => {
                let r = s.read();
                let mut ms: Vec<u8> = r.val.iter().cloned().collect();
                ms.sort();
                s.rm_all(ms, r.derive_rm_ctx())
            }
            _ => unreachable!(),
        })
    }
    fn apply(s: &mut S, o: &O) {
        s.apply(o.clone())
    }
    fn merge(s: &mut S, o: &S) {
        s.merge(o.clone())
    }
    fn reads(s: &S) -> String {
        orswot_reads(s)
    }
    fn content(s: &S) -> String {
        orswot_content(s)
    }
    fn cmd_name(c: Cmd) -> String {
        match c.k {
            ADD => format!("add({})", c.x),
            ADD_ALL => "add_all({0,1})".into(),
            RM_CONTAINS => format!("rm({}, contains({}).derive_rm_ctx())", c.x, c.x),
            RM_READ => format!("rm({}, read().derive_rm_ctx())", c.x),
            RM_ALL_READ => "rm_all(read().val, read().derive_rm_ctx())".into(),
            _ => "?".into(),
        }
    }
    fn rust_type() -> &'static str {
        "Orswot<u8, u8>"
    }
    fn rust_gen(c: Cmd, a: u8, _idx: usize) -> String {
        match c.k {
            ADD => format!("s.add({}, s.read_ctx().derive_add_ctx({}))", c.x, a),
            ADD_ALL => format!("s.add_all(vec![0u8, 1u8], s.read_ctx().derive_add_ctx({}))", a),
            RM_CONTAINS => format!("s.rm({x}, s.contains(&{x}).derive_rm_ctx())", x = c.x),
            RM_READ => format!("s.rm({}, s.read().derive_rm_ctx())", c.x),
            _ => "{ let r = s.read(); let mut ms: Vec<u8> = r.val.iter().cloned().collect(); ms.sort(); s.rm_all(ms, r.derive_rm_ctx()) }".to_string(),
        }
    }
    fn rust_reads() -> &'static str {
        "let mut v: Vec<(u8, VClock<u8>)> = s.iter().map(|c| (*c.val, c.rm_clock.clone())).collect(); v.sort_by_key(|e| e.0); format!(\"members+witnesses {:?} clock {:?}\", v, s.read_ctx().add_clock)"
    }
    fn classes(c: Cmd) -> (Class, Class) {
        match c.k {
            ADD | RM_CONTAINS | RM_READ => (Class::Member, Class::None),
            _ => (Class::None, Class::None),
        }
    }
    fn is_remove(c: Cmd) -> bool {
        c.k >= RM_CONTAINS
    }

    fn spec(recs: &[Rec<Self>], k: Mask, form: Form) -> Option<String> {
        let mut m: BTreeMap<u8, Clk> = BTreeMap::new();
        for x in 0..MEMBERS {
            let w = witness(recs, k, x, form);
            if !w.is_empty() {
                m.insert(x, w);
            }
        }
        Some(format!("{:?}", m))
    }

    fn ctx_check(recs: &[Rec<Self>], k: Mask, s: &S, actors: u8) -> Vec<String> {
        let mut out = vec![];
        let add = add_clock(recs, k);
        let r = s.read();
        if cv(&r.add_clock) != add {
            out.push(format!("read().add_clock={} expected {:?}", vc(&r.add_clock), add));
        }
        let mut all_w: Clk = vec![];
        for x in 0..MEMBERS {
            let w = witness(recs, k, x, Form::Cov);
            all_w = clk_join(&all_w, &w);
            let c = s.contains(&x);
            if cv(&c.add_clock) != add {
                out.push(format!("contains({}).add_clock={} expected {:?}", x, vc(&c.add_clock), add));
            }
            if cv(&c.rm_clock) != w {
                out.push(format!("contains({}).rm_clock={} expected {:?}", x, vc(&c.rm_clock), w));
            }
            if c.val != !w.is_empty() {
                out.push(format!("contains({}).val={} but witnesses {:?}", x, c.val, w));
            }
        }
        for it in s.iter() {
            let w = witness(recs, k, *it.val, Form::Cov);
            if cv(&it.add_clock) != add || cv(&it.rm_clock) != w {
                out.push(format!("iter() item {} add={} rm={} expected add={:?} rm={:?}", it.val, vc(&it.add_clock), vc(&it.rm_clock), add, w));
            }
        }
        for (name, ac, rc) in [("read", &r.add_clock, &r.rm_clock), ("read_ctx", &s.read_ctx().add_clock, &s.read_ctx().rm_clock)] {
            let rcv = cv(rc);
            if cv(ac) != add {
                out.push(format!("{}().add_clock={} expected {:?}", name, vc(ac), add));
            }
            if clk_join(&rcv, &add) != add {
                out.push(format!("{}().rm_clock={} exceeds add_clock {:?}", name, vc(rc), add));
            }
            if clk_join(&rcv, &all_w) != rcv {
                out.push(format!("{}().rm_clock={} does not cover the surviving witnesses {:?}", name, vc(rc), all_w));
            }
        }
        // derived add contexts carry the next unused dot of every actor whose ops are all known
        for a in 0..actors {
            let all_known = recs.iter().enumerate().all(|(i, r)| r.author != a || k >> i & 1 == 1);
            if !all_known {
                continue;
            }
            let ctx = s.read_ctx().derive_add_ctx(a);
            let want = clk_get(&add, a) + 1;
            let mut wc = add.clone();
            clk_add_dot(&mut wc, a, want);
            if ctx.dot.actor != a || ctx.dot.counter != want || cv(&ctx.clock) != wc {
                out.push(format!("derive_add_ctx({}) = dot {:?} clock {} expected dot {}.{} clock {:?}", a, ctx.dot, vc(&ctx.clock), a, want, wc));
            }
            let ctx2 = s.contains(&0).derive_add_ctx(a);
            if ctx2.dot != ctx.dot || ctx2.clock != ctx.clock {
                out.push(format!("contains(0).derive_add_ctx({}) differs from read_ctx().derive_add_ctx", a));
            }
        }
        out
    }

    fn validate_op(s: &S, o: &O) -> Result<(), String> {
        s.validate_op(o).map_err(|e| format!("{:?}", e))
    }
    fn expect_valid(recs: &[Rec<Self>], k: Mask, j: usize) -> Expect {
        match &recs[j].op {
            orswot::Op::Rm { .. } => Expect::Accept,
            orswot::Op::Add { dot, .. } => {
                let have = clk_get(&add_clock(recs, k), dot.actor);
                if dot.counter <= have + 1 {
                    Expect::Accept
                } else {
                    Expect::Reject
                }
            }
        }
    }
    fn validate_merge(a: &S, b: &S) -> Result<(), String> {
        a.validate_merge(b).map_err(|e| format!("{:?}", e))
    }
    fn merge_reject_site(recs: &[Rec<Self>], _a: &S, _b: &S) -> &'static str {
        // RC5: under correct use only add_all makes one dot witness several members
        if recs.iter().any(|r| r.cmd.k == ADD_ALL) {
            "-dot-shared-by-add-all"
        } else {
            ""
        }
    }
    fn double_spent(a: &S, b: &S) -> bool {
        for x in a.iter() {
            for y in b.iter() {
                if x.val != y.val {
                    for (act, n) in cv(&x.rm_clock) {
                        if y.rm_clock.get(&act) == n {
                            return true;
                        }
                    }
                }
            }
        }
        false
    }
    fn reset_remove(s: &mut S, c: &crdts::VClock<u8>) {
        s.reset_remove(c)
    }
    fn rr_view(s: &S) -> RrView {
        orswot_rr_view(s)
    }
    fn to_json(s: &S) -> Result<String, String> {
        serde_json::to_string(s).map_err(|e| e.to_string())
    }
    fn from_json(j: &str) -> Result<S, String> {
        serde_json::from_str(j).map_err(|e| e.to_string())
    }
    fn op_roundtrip(o: &O) -> Result<O, String> {
        let j = serde_json::to_string(o).map_err(|e| e.to_string())?;
        serde_json::from_str(&j).map_err(|e| e.to_string())
    }
    fn pending(s: &S) -> usize {
        s.verif_deferred().len()
    }
    fn residue(s: &S) -> Vec<String> {
        orswot_residue(s, "")
    }
    fn canonical_rebuild(s: &S) -> Option<S> {
        serde_json::from_value(orswot_json_value(s)).ok()
    }
}
