//! Map<u8 key, Orswot<u8,u8>, u8 actor>
use super::map_mv::*;
use super::orswot::{orswot_residue, orswot_rr_view};
use super::*;
use crate::engine::*;
use crdts::{map, orswot, CmRDT, CvRDT, Map, Orswot, ResetRemove};
use std::collections::{BTreeMap, BTreeSet};

pub struct MapOr;
pub type V = Orswot<u8, u8>;
pub type S = Map<u8, V, u8>;
pub type O = map::Op<u8, V, u8>;

pub const ADD: u8 = 0; // update(k, get(k).derive_add_ctx(a), |set, c| set.add(m, c))
pub const RM_MEMBER: u8 = 1; // update(k, ctx, |set, _| set.rm(m, set.contains(m).derive_rm_ctx()))
pub const RM_KEY: u8 = 2; // rm(k, get(k).derive_rm_ctx())
pub const RM_KEY_CTX: u8 = 3; // rm(k, read_ctx().derive_rm_ctx())
pub const ADD_ALL: u8 = 4; // update(k, get(k).derive_add_ctx(a), |set, c| set.add_all([0, 1], c)): one dot witnesses two members
pub const KEYS: u8 = 3;
pub const MEMBERS: u8 = 3;

fn set_content(v: &V) -> BTreeSet<u8> {
    v.read().val.into_iter().collect()
}
fn content(s: &S) -> String {
    let mut m: BTreeMap<u8, BTreeSet<u8>> = BTreeMap::new();
    for e in s.iter() {
        m.insert(*e.val.0, set_content(e.val.1));
    }
    for k in 0..KEYS {
        let g = s.get(&k).val.map(|v| set_content(&v));
        if g != m.get(&k).cloned() {
            return format!("!get({}) = {:?} disagrees with iter() = {:?}", k, g, m);
        }
        if let Some(v) = s.get(&k).val {
            for x in 0..MEMBERS {
                if v.contains(&x).val != m[&k].contains(&x) {
                    return format!("!key {} contains({}) disagrees with read()", k, x);
                }
            }
        }
    }
    format!("{:?}", m)
}

impl Sys for MapOr {
    type S = S;
    type O = O;
    const NAME: &'static str = "map_orswot";

    fn init() -> S {
        Map::new()
    }
    fn gen(_h: &[Rec<Self>], s: &S, a: u8, c: Cmd, _idx: usize) -> Option<O> {
        Some(match c.k {
            ADD => s.update(c.x, s.get(&c.x).derive_add_ctx(a), |set, ctx| set.add(c.y, ctx)),
            RM_MEMBER => s.update(c.x, s.get(&c.x).derive_add_ctx(a), |set, _ctx| set.rm(c.y, set.contains(&c.y).derive_rm_ctx())),
            RM_KEY => s.rm(c.x, s.get(&c.x).derive_rm_ctx()),
            RM_KEY_CTX => s.rm(c.x, s.read_ctx().derive_rm_ctx()),
            ADD_ALL => s.update(c.x, s.get(&c.x).derive_add_ctx(a), |set, ctx| set.add_all(vec![0u8, 1u8], ctx)),
            _ => unreachable!(),
        })
    }
    fn apply(s: &mut S, o: &O) {
        s.apply(o.clone())
    }
    fn merge(s: &mut S, o: &S) {
        s.merge(o.clone())
    }
    fn reads(s: &S) -> String {
        // nested Orswot contexts are part of the reads here (they are not path dependent in a correct
        // implementation; only Map<_,MVReg> excludes nested contexts, see DESIGN.md §3.5)
        let nested: Vec<(u8, String)> = s.iter().map(|e| (*e.val.0, super::orswot::orswot_reads(e.val.1))).collect();
        format!("{} {} nested={:?}", content(s), map_top_reads(s, KEYS), nested)
    }
    fn content(s: &S) -> String {
        content(s)
    }
    fn cmd_name(c: Cmd) -> String {
        match c.k {
            ADD => format!("update({k}, get({k}).derive_add_ctx(actor), |set, c| set.add({m}, c))", k = c.x, m = c.y),
            RM_MEMBER => format!("update({k}, get({k}).derive_add_ctx(actor), |set, _| set.rm({m}, set.contains({m}).derive_rm_ctx()))", k = c.x, m = c.y),
            RM_KEY => format!("rm({k}, get({k}).derive_rm_ctx())", k = c.x),
            RM_KEY_CTX => format!("rm({k}, read_ctx().derive_rm_ctx())", k = c.x),
            ADD_ALL => format!("update({k}, get({k}).derive_add_ctx(actor), |set, c| set.add_all({{0,1}}, c))", k = c.x),
            _ => "?".into(),
        }
    }
    fn rust_type() -> &'static str {
        "Map<u8, Orswot<u8, u8>, u8>"
    }
    fn rust_gen(c: Cmd, a: u8, _idx: usize) -> String {
        match c.k {
            ADD => format!("s.update({k}u8, s.get(&{k}).derive_add_ctx({a}), |set, c| set.add({m}u8, c))", k = c.x, a = a, m = c.y),
            RM_MEMBER => format!("s.update({k}u8, s.get(&{k}).derive_add_ctx({a}), |set, _c| set.rm({m}u8, set.contains(&{m}).derive_rm_ctx()))", k = c.x, a = a, m = c.y),
            RM_KEY => format!("s.rm({k}u8, s.get(&{k}).derive_rm_ctx())", k = c.x),
            ADD_ALL => format!("s.update({k}u8, s.get(&{k}).derive_add_ctx({a}), |set, c| set.add_all(vec![0u8, 1u8], c))", k = c.x, a = a),
            _ => format!("s.rm({k}u8, s.read_ctx().derive_rm_ctx())", k = c.x),
        }
    }
    fn rust_reads() -> &'static str {
        "let v: Vec<(u8, Vec<u8>, VClock<u8>)> = s.iter().map(|c| { let mut x: Vec<u8> = c.val.1.read().val.into_iter().collect(); x.sort(); (*c.val.0, x, c.rm_clock.clone()) }).collect(); format!(\"key -> members, key witness {:?} clock {:?}\", v, s.read_ctx().add_clock)"
    }
    fn classes(c: Cmd) -> (Class, Class) {
        match c.k {
            ADD | RM_MEMBER => (Class::Key, Class::Member),
            _ => (Class::Key, Class::None),
        }
    }
    fn is_remove(c: Cmd) -> bool {
        c.k != ADD && c.k != ADD_ALL
    }
    fn spec(recs: &[Rec<Self>], k: Mask, form: Form) -> Option<String> {
        let mut m: BTreeMap<u8, BTreeSet<u8>> = BTreeMap::new();
        for key in 0..KEYS {
            let mut present = false;
            let mut set = BTreeSet::new();
            for (i, r) in recs.iter().enumerate() {
                if k >> i & 1 == 0 {
                    continue;
                }
                if let map::Op::Up { dot, key: k2, op } = &r.op {
                    if *k2 != key || !up_alive(recs, k, i, form) {
                        continue;
                    }
                    present = true;
                    if let orswot::Op::Add { members, .. } = op {
                        for mem in members {
                            let removed = recs.iter().enumerate().any(|(j, r2)| {
                                k >> j & 1 == 1
                                    && match &r2.op {
                                        map::Op::Up { key: k3, op: orswot::Op::Rm { clock, members: ms }, .. } if *k3 == key && ms.contains(mem) => match form {
                                            Form::Vis => r2.vis >> i & 1 == 1,
                                            Form::Cov => covers(clock, dot),
                                        },
                                        _ => false,
                                    }
                            });
                            if !removed {
                                set.insert(*mem);
                            }
                        }
                    }
                }
            }
            if present {
                m.insert(key, set);
            }
        }
        Some(format!("{:?}", m))
    }
    fn ctx_check(recs: &[Rec<Self>], k: Mask, s: &S, actors: u8) -> Vec<String> {
        map_ctx_check(recs, k, s, actors, KEYS)
    }
    fn validate_op(s: &S, o: &O) -> Result<(), String> {
        s.validate_op(o).map_err(|e| format!("{:?}", e))
    }
    fn expect_valid(recs: &[Rec<Self>], k: Mask, j: usize) -> Expect {
        map_validate_expect(recs, k, j)
    }
    fn validate_merge(a: &S, b: &S) -> Result<(), String> {
        a.validate_merge(b).map_err(|e| format!("{:?}", e))
    }
    fn double_spent(a: &S, b: &S) -> bool {
        if map_double_spent(a, b) {
            return true;
        }
        // a dot may also witness different *members* under the same key on the two sides
        for x in a.iter() {
            if let Some(y) = b.get(x.val.0).val {
                if <super::orswot::Or as Sys>::double_spent(x.val.1, &y) {
                    return true;
                }
            }
        }
        false
    }
    fn double_spent_site(a: &S, b: &S) -> &'static str {
        if map_double_spent(a, b) {
            return "";
        }
        // only nested: do all keys that carry a nested double spend have comparable (non-concurrent) entry clocks?
        let mut all_comparable = true;
        for x in a.keys() {
            if let (Some(va), Some(vb)) = (a.get(x.val).val, b.get(x.val).val) {
                if <super::orswot::Or as Sys>::double_spent(&va, &vb) && x.rm_clock.concurrent(&b.get(x.val).rm_clock) {
                    all_comparable = false;
                }
            }
        }
        if all_comparable {
            "-nested-under-comparable-entry-clocks"
        } else {
            "-nested"
        }
    }
    fn reset_remove(s: &mut S, c: &crdts::VClock<u8>) {
        s.reset_remove(c)
    }
    fn rr_view(s: &S) -> RrView {
        let elems = s.iter().map(|c| (c.val.0.to_string(), cv(&c.rm_clock), Some(Box::new(orswot_rr_view(c.val.1))))).collect();
        RrView { clock: cv(&s.read_ctx().add_clock), elems, pending: map_deferred_view(s) }
    }
    fn to_json(s: &S) -> Result<String, String> {
        serde_json::to_string(s).map_err(|e| e.to_string())
    }
    fn from_json(j: &str) -> Result<S, String> {
        serde_json::from_str(j).map_err(|e| e.to_string())
    }
    fn op_roundtrip(o: &O) -> Result<O, String> {
        let j = serde_json::to_string(o).map_err(|e| e.to_string())?;
        serde_json::from_str(&j).map_err(|e| e.to_string())
    }
    fn pending(s: &S) -> usize {
        s.verif_deferred().len() + s.iter().map(|e| e.val.1.verif_deferred().len()).sum::<usize>()
    }
    fn residue(s: &S) -> Vec<String> {
        let mut out: Vec<String> = map_deferred_view(s).into_iter().map(|(c, ks)| format!("pending key remove {:?} of {:?}", c, ks)).collect();
        for e in s.iter() {
            if e.rm_clock.is_empty() {
                out.push(format!("key {} with empty witness", e.val.0));
            }
            out.extend(orswot_residue(e.val.1, &format!("key {}: ", e.val.0)));
        }
        out
    }
}
