//! Grid + closure explorers for the pure value types (DESIGN.md §3.4): VClock/Dot (C10), Identifier (C14).
//! The bounded space is the complete grid of inputs; every call goes into the real crate and is compared
//! with a boring reference model.

use crate::report::Extra;
use crdts::{CmRDT, CvRDT, Dot, Identifier, ResetRemove, VClock};
use num::{BigInt, BigRational};
use serde_json::json;
use std::cmp::Ordering;
use std::collections::BTreeSet;

const A: usize = 3;

struct Viol {
    v: Vec<(String, String)>,
    seen: BTreeSet<String>,
}
impl Viol {
    fn add(&mut self, kind: &str, text: String) {
        // one replay per kind is enough to act on; count the rest
        if self.seen.insert(kind.to_string()) || self.v.len() < 20 {
            self.v.push((kind.to_string(), text));
        }
    }
}

fn mk(c: &[u64; A]) -> VClock<u8> {
    // through the public API: FromIterator<Dot>
    c.iter().enumerate().map(|(a, n)| Dot::new(a as u8, *n)).collect()
}
fn rd(c: &VClock<u8>) -> [u64; A] {
    let mut r = [0u64; A];
    for a in 0..A {
        r[a] = c.get(&(a as u8));
    }
    r
}
fn no_zero(c: &VClock<u8>) -> bool {
    c.dots.values().all(|n| *n > 0) && c.dots.keys().all(|a| (*a as usize) < A)
}
fn ref_cmp(a: &[u64; A], b: &[u64; A]) -> Option<Ordering> {
    let le = (0..A).all(|i| a[i] <= b[i]);
    let ge = (0..A).all(|i| a[i] >= b[i]);
    match (le, ge) {
        (true, true) => Some(Ordering::Equal),
        (true, false) => Some(Ordering::Less),
        (false, true) => Some(Ordering::Greater),
        (false, false) => None,
    }
}

pub fn vclock_grid(quick: bool) -> Extra {
    let maxc: u64 = if quick { 2 } else { 3 };
    let mut viol = Viol { v: vec![], seen: BTreeSet::new() };
    let mut grid: Vec<[u64; A]> = vec![];
    for x in 0..=maxc {
        for y in 0..=maxc {
            for z in 0..=maxc {
                grid.push([x, y, z]);
            }
        }
    }
    let clocks: Vec<VClock<u8>> = grid.iter().map(mk).collect();
    let mut calls = 0u64;
    let mut outcomes: BTreeSet<String> = BTreeSet::new();
    for (g, c) in grid.iter().zip(clocks.iter()) {
        if rd(c) != *g || !no_zero(c) || c.is_empty() != g.iter().all(|n| *n == 0) {
            viol.add("construct", format!("clock built from dots {:?} reads {:?} stored {:?}", g, rd(c), c.dots));
        }
        // iter / into_iter / from_iter round trip, dot(), inc()
        let back: VClock<u8> = c.clone().into_iter().collect();
        let viait: VClock<u8> = c.iter().map(|d| Dot::new(*d.actor, d.counter)).collect();
        calls += 3;
        if back != *c || viait != *c {
            viol.add("iter-roundtrip", format!("{:?}: into_iter/from_iter gives {:?}, iter gives {:?}", g, back.dots, viait.dots));
        }
        for a in 0..A as u8 {
            let d = c.dot(a);
            let i = c.inc(a);
            calls += 2;
            if d.counter != g[a as usize] || d.actor != a || i.counter != g[a as usize] + 1 || i.actor != a {
                viol.add("dot-inc", format!("{:?}: dot({}) = {:?}, inc({}) = {:?}", g, a, d, a, i));
            }
            // apply / validate_op for every dot
            for n in 0..=maxc + 2 {
                let dot = Dot::new(a, n);
                let mut c2 = c.clone();
                c2.apply(dot);
                calls += 2;
                let mut want = *g;
                want[a as usize] = want[a as usize].max(n);
                if rd(&c2) != want || !no_zero(&c2) {
                    viol.add("apply", format!("{:?}.apply({:?}) = {:?} (stored {:?}) expected {:?}", g, dot, rd(&c2), c2.dots, want));
                }
                if !(c2 >= *c) {
                    viol.add("apply-not-monotone", format!("{:?}.apply({:?}) = {:?} is not >= the original", g, dot, rd(&c2)));
                }
                let v = c.validate_op(&dot);
                let want_ok = n <= g[a as usize] + 1;
                if v.is_ok() != want_ok {
                    viol.add("validate-op", format!("{:?}.validate_op({:?}) = {:?} expected ok={}", g, dot, v, want_ok));
                }
                if let Err(e) = &v {
                    if e.actor != a || e.counter_range != (g[a as usize] + 1..n) {
                        viol.add("validate-op-range", format!("{:?}.validate_op({:?}) reports {:?}", g, dot, e));
                    }
                }
            }
        }
    }
    for (ga, ca) in grid.iter().zip(clocks.iter()) {
        for (gb, cb) in grid.iter().zip(clocks.iter()) {
            calls += 8;
            let got = ca.partial_cmp(cb);
            let want = ref_cmp(ga, gb);
            outcomes.insert(format!("{:?}", got));
            if got != want {
                viol.add("partial-cmp", format!("{:?} vs {:?}: partial_cmp = {:?}, pointwise order = {:?}", ga, gb, got, want));
            }
            if (ca == cb) != (want == Some(Ordering::Equal)) {
                viol.add("eq", format!("{:?} == {:?} is {}", ga, gb, ca == cb));
            }
            if ca.concurrent(cb) != want.is_none() {
                viol.add("concurrent", format!("{:?}.concurrent({:?}) = {}", ga, gb, ca.concurrent(cb)));
            }
            // operators
            if (ca <= cb) != matches!(want, Some(Ordering::Less | Ordering::Equal)) || (ca > cb) != (want == Some(Ordering::Greater)) {
                viol.add("cmp-operators", format!("{:?} <= / > {:?} inconsistent with partial_cmp", ga, gb));
            }
            let mut m = ca.clone();
            m.merge(cb.clone());
            let mut wantm = [0; A];
            let mut wantg = [0; A];
            let mut wantr = [0; A];
            let mut wanti = [0; A];
            for i in 0..A {
                wantm[i] = ga[i].max(gb[i]);
                wantg[i] = ga[i].min(gb[i]);
                wantr[i] = if ga[i] > gb[i] { ga[i] } else { 0 };
                wanti[i] = if ga[i] == gb[i] { ga[i] } else { 0 };
            }
            if rd(&m) != wantm || !no_zero(&m) {
                viol.add("merge-not-lub", format!("{:?}.merge({:?}) = {:?} stored {:?}", ga, gb, rd(&m), m.dots));
            }
            if !(m >= *ca && m >= *cb) {
                viol.add("merge-not-upper-bound", format!("{:?}.merge({:?}) = {:?} is not an upper bound", ga, gb, rd(&m)));
            }
            let mut g = ca.clone();
            g.glb(cb);
            if rd(&g) != wantg || !no_zero(&g) {
                viol.add("glb", format!("{:?}.glb({:?}) = {:?} stored {:?}", ga, gb, rd(&g), g.dots));
            }
            if !(g <= *ca && g <= *cb) {
                viol.add("glb-not-lower-bound", format!("{:?}.glb({:?}) = {:?} is not a lower bound", ga, gb, rd(&g)));
            }
            let mut r = ca.clone();
            r.reset_remove(cb);
            if rd(&r) != wantr || !no_zero(&r) {
                viol.add("reset-remove", format!("{:?}.reset_remove({:?}) = {:?} stored {:?} expected {:?}", ga, gb, rd(&r), r.dots, wantr));
            }
            let cw = ca.clone_without(cb);
            if cw != r {
                viol.add("clone-without", format!("{:?}.clone_without({:?}) = {:?} differs from reset_remove", ga, gb, rd(&cw)));
            }
            let it = VClock::intersection(ca, cb);
            if rd(&it) != wanti || !no_zero(&it) {
                viol.add("intersection", format!("intersection({:?}, {:?}) = {:?} stored {:?} expected {:?}", ga, gb, rd(&it), it.dots, wanti));
            }
            if ca.validate_merge(cb).is_err() {
                viol.add("validate-merge", format!("{:?}.validate_merge({:?}) failed", ga, gb));
            }
        }
    }
    // least / greatest among all grid clocks, and transitivity, on all triples (of the implementation's answers)
    let n = grid.len();
    let mut le = vec![vec![false; n]; n];
    for i in 0..n {
        for j in 0..n {
            le[i][j] = clocks[i] <= clocks[j];
        }
    }
    let mut triples = 0u64;
    for i in 0..n {
        for j in 0..n {
            let mut m = clocks[i].clone();
            m.merge(clocks[j].clone());
            let mut g = clocks[i].clone();
            g.glb(&clocks[j]);
            for k in 0..n {
                triples += 1;
                if le[i][j] && le[j][k] && !le[i][k] {
                    viol.add("not-transitive", format!("{:?} <= {:?} <= {:?} but not {:?} <= {:?}", grid[i], grid[j], grid[k], grid[i], grid[k]));
                }
                // every upper bound of i and j is >= the merge; every lower bound is <= the glb
                if le[i][k] && le[j][k] && !(m <= clocks[k]) {
                    viol.add("merge-not-least", format!("{:?} is an upper bound of {:?},{:?} but merge = {:?} is not below it", grid[k], grid[i], grid[j], rd(&m)));
                }
                if le[k][i] && le[k][j] && !(clocks[k] <= g) {
                    viol.add("glb-not-greatest", format!("{:?} is a lower bound of {:?},{:?} but glb = {:?} is not above it", grid[k], grid[i], grid[j], rd(&g)));
                }
            }
            if le[i][j] && le[j][i] && i != j {
                viol.add("not-antisymmetric", format!("{:?} <= {:?} and >= but different", grid[i], grid[j]));
            }
        }
        if !le[i][i] {
            viol.add("not-reflexive", format!("{:?} <= itself is false", grid[i]));
        }
    }
    calls += triples;
    // Dot order
    let mut dots = vec![];
    for a in 0..A as u8 {
        for c in 0..=maxc + 2 {
            dots.push(Dot::new(a, c));
        }
    }
    for d1 in dots.iter() {
        for d2 in dots.iter() {
            calls += 1;
            let want = if d1.actor == d2.actor { Some(d1.counter.cmp(&d2.counter)) } else { None };
            if d1.partial_cmp(d2) != want || (d1 == d2) != (want == Some(Ordering::Equal)) {
                viol.add("dot-order", format!("{:?} vs {:?}: partial_cmp = {:?} expected {:?}", d1, d2, d1.partial_cmp(d2), want));
            }
        }
        if d1.inc().counter != d1.counter + 1 || d1.inc().actor != d1.actor {
            viol.add("dot-inc", format!("{:?}.inc() = {:?}", d1, d1.inc()));
        }
    }
    // reachability closure from the empty clock under the API (stays inside the grid by construction)
    let mut seen: BTreeSet<[u64; A]> = BTreeSet::new();
    let mut frontier = vec![VClock::<u8>::new()];
    seen.insert([0; A]);
    let mut closure_calls = 0u64;
    while let Some(c) = frontier.pop() {
        let mut nexts: Vec<VClock<u8>> = vec![];
        for a in 0..A as u8 {
            if c.get(&a) < maxc {
                let mut c2 = c.clone();
                c2.apply(c.inc(a));
                nexts.push(c2);
            }
        }
        let known: Vec<[u64; A]> = seen.iter().cloned().collect();
        for k in known.iter() {
            let o = mk(k);
            let mut m = c.clone();
            m.merge(o.clone());
            let mut g = c.clone();
            g.glb(&o);
            let mut r = c.clone();
            r.reset_remove(&o);
            let mut r2 = o.clone();
            r2.reset_remove(&c);
            nexts.push(m);
            nexts.push(g);
            nexts.push(r);
            nexts.push(r2);
            nexts.push(VClock::intersection(&c, &o));
        }
        for nx in nexts {
            closure_calls += 1;
            if !no_zero(&nx) {
                viol.add("zero-counter-stored", format!("reachable clock stores a zero counter: {:?}", nx.dots));
            }
            if seen.insert(rd(&nx)) {
                frontier.push(nx);
            }
        }
    }
    calls += closure_calls;
    let nviol = viol.v.len();
    Extra {
        states: (grid.len() + seen.len()) as u64,
        transitions: calls,
        samples: vec![{
            let (a, b) = (&clocks[5], &clocks[n - 2]);
            let mut m = a.clone();
            m.merge(b.clone());
            let mut r = a.clone();
            r.reset_remove(b);
            json!({"clock_a": grid[5].to_vec(), "clock_b": grid[n - 2].to_vec(), "partial_cmp": format!("{:?}", a.partial_cmp(b)), "merge": rd(&m).to_vec(), "a_reset_remove_b": rd(&r).to_vec()})
        }],
        detail: json!({"engine": "grid+closure", "actors": A, "max_counter": maxc, "grid_clocks": grid.len(), "ordered_pairs": n * n, "triples": triples, "dots": dots.len(),
                       "closure_states": seen.len(), "closure_transitions": closure_calls, "api_calls": calls, "violations_recorded": nviol}),
        violations: viol.v,
        outcomes: outcomes.len() as u64,
    }
}

// ---------------------------------------------------------------------------------------------------
type Node = (i64, i64, u8); // numerator / denominator (den > 0), marker
type Path = Vec<Node>;

fn ref_node_cmp(a: &Node, b: &Node) -> Ordering {
    let l = (a.0 as i128) * (b.1 as i128);
    let r = (b.0 as i128) * (a.1 as i128);
    l.cmp(&r).then(a.2.cmp(&b.2))
}
/// documented rule: lexicographic; when one path is a proper prefix of the other, the longer one sorts first
fn ref_cmp_id(a: &Path, b: &Path) -> Ordering {
    let mut i = 0;
    loop {
        match (a.get(i), b.get(i)) {
            (Some(x), Some(y)) => match ref_node_cmp(x, y) {
                Ordering::Equal => i += 1,
                o => return o,
            },
            (None, Some(_)) => return Ordering::Greater,
            (Some(_), None) => return Ordering::Less,
            (None, None) => return Ordering::Equal,
        }
    }
}
fn mk_id(p: &Path) -> Identifier<u8> {
    // Identifier is serde(transparent) over Vec<(BigRational, T)>: build arbitrary paths through Deserialize
    let v: Vec<(BigRational, u8)> = p.iter().map(|(n, d, m)| (BigRational::new(BigInt::from(*n), BigInt::from(*d)), *m)).collect();
    serde_json::from_value(serde_json::to_value(&v).unwrap()).unwrap()
}

pub fn identifier_grid(quick: bool) -> Extra {
    let mut viol = Viol { v: vec![], seen: BTreeSet::new() };
    let rats: Vec<(i64, i64)> = vec![(-1, 1), (0, 1), (1, 2), (1, 1)];
    let markers: Vec<u8> = vec![0, 1, 2];
    let mut nodes: Vec<Node> = vec![];
    for r in rats.iter() {
        for m in markers.iter() {
            nodes.push((r.0, r.1, *m));
        }
    }
    let depth = if quick { 2 } else { 3 };
    let mut paths: Vec<Path> = vec![vec![]];
    let mut level: Vec<Path> = vec![vec![]];
    for _ in 0..depth {
        let mut next = vec![];
        for p in level.iter() {
            for n in nodes.iter() {
                let mut q = p.clone();
                q.push(*n);
                next.push(q);
            }
        }
        paths.extend(next.iter().cloned());
        level = next;
    }
    if quick {
        // plus the depth-3 sub-grid over a 2x2 node alphabet, so forks below a common prefix are in the quick tier too
        // (-1 and 1 are in it so that a node two levels below a fork can lie a whole unit beyond the node right below
        // the fork in either direction - seed C14-5 reads the wrong one of the two)
        let small: Vec<Node> = vec![(0, 1, 0), (0, 1, 1), (1, 2, 0), (1, 2, 1), (-1, 1, 0), (1, 1, 1)];
        for a in small.iter() {
            for b in small.iter() {
                for c in small.iter() {
                    paths.push(vec![*a, *b, *c]);
                }
            }
        }
    }
    let ids: Vec<Identifier<u8>> = paths.iter().map(mk_id).collect();
    let n = ids.len();
    let mut calls = 0u64;
    let mut outcomes: BTreeSet<String> = BTreeSet::new();
    // 1. cmp equals the reference order on all ordered pairs
    for i in 0..n {
        for j in 0..n {
            calls += 2;
            let got = ids[i].cmp(&ids[j]);
            let want = ref_cmp_id(&paths[i], &paths[j]);
            if got != want {
                viol.add("cmp", format!("{:?} vs {:?}: cmp = {:?}, documented order = {:?}", paths[i], paths[j], got, want));
            }
            if (got == Ordering::Equal) != (ids[i] == ids[j]) {
                viol.add("cmp-eq-inconsistent", format!("{:?} vs {:?}: cmp = {:?} but == is {}", paths[i], paths[j], got, ids[i] == ids[j]));
            }
            if ids[j].cmp(&ids[i]) != got.reverse() {
                viol.add("cmp-not-antisymmetric", format!("{:?} vs {:?}", paths[i], paths[j]));
            }
            if ids[i].partial_cmp(&ids[j]) != Some(got) {
                viol.add("partial-cmp", format!("{:?} vs {:?}: partial_cmp disagrees with cmp", paths[i], paths[j]));
            }
        }
    }
    // 2. transitivity on all triples of the sub-grids (of the implementation's own answers)
    let sub: Vec<usize> = (0..n).filter(|i| paths[*i].len() <= 2 || paths[*i].iter().all(|nd| (nd.0 == 0 || nd.1 == 2) && nd.2 <= 1)).collect();
    let mut triples = 0u64;
    let lt: Vec<Vec<bool>> = sub.iter().map(|i| sub.iter().map(|j| ids[*i] < ids[*j]).collect()).collect();
    for a in 0..sub.len() {
        for b in 0..sub.len() {
            if !lt[a][b] {
                continue;
            }
            for c in 0..sub.len() {
                triples += 1;
                if lt[b][c] && !lt[a][c] {
                    viol.add("not-transitive", format!("{:?} < {:?} < {:?} but not {:?} < {:?}", paths[sub[a]], paths[sub[b]], paths[sub[c]], paths[sub[a]], paths[sub[c]]));
                }
            }
        }
    }
    calls += triples;
    // 3. between is strictly between, for every pair low < high of non-empty identifiers and every marker
    let mut betweens = 0u64;
    for i in 0..n {
        if paths[i].is_empty() {
            continue;
        }
        for m in 0..=3u8 {
            // one-sided
            betweens += 2;
            let up = Identifier::between(Some(&ids[i]), None, m);
            let down = Identifier::between(None, Some(&ids[i]), m);
            if !(up > ids[i]) || *up.value() != m {
                viol.add("between-low-only", format!("between(Some({:?}), None, {}) = {:?} is not strictly above", paths[i], m, up));
            }
            if !(down < ids[i]) || *down.value() != m {
                viol.add("between-high-only", format!("between(None, Some({:?}), {}) = {:?} is not strictly below", paths[i], m, down));
            }
        }
        for j in 0..n {
            if paths[j].is_empty() || ids[i].cmp(&ids[j]) != Ordering::Less {
                continue;
            }
            for m in 0..=3u8 {
                betweens += 2;
                let r = Identifier::between(Some(&ids[i]), Some(&ids[j]), m);
                outcomes.insert(format!("{}", r.clone().into_value() as usize + 10 * (serde_json::to_value(&r).unwrap().as_array().unwrap().len())));
                if !(ids[i] < r && r < ids[j]) {
                    viol.add("between-not-strictly-between", format!("between({:?}, {:?}, {}) = {:?}", paths[i], paths[j], m, r));
                }
                if *r.value() != m {
                    viol.add("between-marker", format!("between({:?}, {:?}, {}) = {:?} does not end in the marker", paths[i], paths[j], m, r));
                }
                let r2 = Identifier::between(Some(&ids[j]), Some(&ids[i]), m);
                if r2 != r {
                    viol.add("between-swapped-args", format!("between({:?}, {:?}, {}) = {:?} but swapped = {:?}", paths[i], paths[j], m, r, r2));
                }
            }
        }
    }
    calls += betweens;
    let z = Identifier::between(None, None, 7u8);
    if *z.value() != 7 {
        viol.add("between-none", format!("between(None, None, 7) = {:?}", z));
    }
    // 4. reachability closure: repeatedly split every gap (and both ends) with every marker
    let rounds = if quick { 4 } else { 5 };
    let mut set: BTreeSet<Identifier<u8>> = BTreeSet::new();
    set.insert(Identifier::between(None, None, 1u8));
    let mut closure_calls = 0u64;
    let mut maxdepth = 0usize;
    for _ in 0..rounds {
        let cur: Vec<Identifier<u8>> = set.iter().cloned().collect();
        for w in 0..=cur.len() {
            let lo = if w == 0 { None } else { Some(&cur[w - 1]) };
            let hi = cur.get(w);
            for m in 0..3u8 {
                closure_calls += 1;
                let r = Identifier::between(lo, hi, m);
                let ok = lo.map_or(true, |l| *l < r) && hi.map_or(true, |h| r < *h);
                if !ok {
                    viol.add("closure-between-not-strictly-between", format!("between({:?}, {:?}, {}) = {:?}", lo, hi, m, r));
                }
                maxdepth = maxdepth.max(serde_json::to_value(&r).unwrap().as_array().unwrap().len());
                if !set.insert(r.clone()) {
                    viol.add("closure-collision", format!("between({:?}, {:?}, {}) = {:?} already exists", lo, hi, m, r));
                }
            }
        }
    }
    calls += closure_calls;
    let nviol = viol.v.len();
    Extra {
        states: (n + set.len()) as u64,
        transitions: calls,
        samples: vec![json!({"low": format!("{:?}", paths[n / 3]), "high": format!("{:?}", paths[n / 2]), "cmp": format!("{:?}", ids[n / 3].cmp(&ids[n / 2])),
                             "between_marker_1": format!("{:?}", Identifier::between(Some(&ids[n / 3]), Some(&ids[n / 2]), 1u8))})],
        detail: json!({"engine": "grid+closure", "node_alphabet": "{-1,0,1/2,1} x {0,1,2}", "max_depth": depth, "identifiers": n, "ordered_pairs": n * n, "triples_on_subgrid": triples,
                       "subgrid_identifiers": sub.len(), "between_calls": betweens, "closure_rounds": rounds, "closure_identifiers": set.len(), "closure_max_path_depth": maxdepth,
                       "closure_calls": closure_calls, "violations_recorded": nviol}),
        violations: viol.v,
        outcomes: outcomes.len() as u64,
    }
}
