//! Generic per-node oracles (DESIGN.md §3.5, §4).  Every visitor looks only at the knowledge sets that
//! contain the newest op ("fresh" attribution): everything else was checked at an ancestor node.

use crate::engine::*;
use crdts::VClock;

fn bits(m: Mask) -> Vec<usize> {
    (0..32).filter(|i| m >> i & 1 == 1).collect()
}

// ------------------------------------------------------------------------------------------------
/// C01 / C08 / C03: all states of S(K) show identical reads.
pub struct Converge {
    /// only causally closed K are required to agree (C08 under Fifo; C03/C20 under Fifo)
    pub closed_only: bool,
    /// C03 flavour: report a merge-derived state that reads unlike every ops-only state
    pub merge_vs_ops: bool,
}
impl<Y: Sys> Visitor<Y> for Converge {
    fn visit(&mut self, h: &Hist<Y>, _cfg: &Cfg, st: &mut Stats, sink: &mut Sink) {
        for m in h.new_masks() {
            let ents = &h.table[m as usize];
            if ents.is_empty() {
                continue;
            }
            st.checks += 1;
            if ents.len() == 1 {
                st.outcome(&Y::reads(&ents[0].s));
                continue;
            }
            if self.closed_only && !causally_closed(&h.recs, m) {
                continue;
            }
            let reads: Vec<String> = ents.iter().map(|e| Y::reads(&e.s)).collect();
            for r in reads.iter() {
                st.outcome(r);
            }
            if self.merge_vs_ops {
                let pure: Vec<&String> = ents.iter().zip(reads.iter()).filter(|(e, _)| e.pure_ops).map(|(_, r)| r).collect();
                for (i, (e, r)) in ents.iter().zip(reads.iter()).enumerate() {
                    if !e.pure_ops && !pure.contains(&r) {
                        sink.fail(h, "merge-differs-from-ops", m, || {
                            format!("K={:?}: state {} reads {} but op delivery gives {:?}", bits(m), h.derivation(m, i), r, pure)
                        });
                        break;
                    }
                }
                // ops-only states among themselves
                if pure.iter().any(|r| *r != pure[0]) && (causally_closed(&h.recs, m)) {
                    sink.fail(h, "read-divergence", m, || format!("K={:?}: ops-only states read differently: {:?}", bits(m), pure));
                }
            } else if reads.iter().any(|r| *r != reads[0]) {
                sink.fail(h, "read-divergence", m, || {
                    let i = reads.iter().position(|r| *r != reads[0]).unwrap();
                    format!("K={:?}: {} reads {} but {} reads {}", bits(m), h.derivation(m, 0), reads[0], h.derivation(m, i), reads[i])
                });
            }
        }
    }
    fn fresh(&self) -> Box<dyn Visitor<Y>> {
        Box::new(Converge { closed_only: self.closed_only, merge_vs_ops: self.merge_vs_ops })
    }
}

// ------------------------------------------------------------------------------------------------
/// C04 / C05 / C06 / C11 / C12 / C15: content equals the reference model in every state.
pub struct SpecMatch {
    /// also evaluate the coverage form on knowledge sets that are not causally closed
    pub cov_everywhere: bool,
    pub use_cov: bool,
}
impl<Y: Sys> Visitor<Y> for SpecMatch {
    fn visit(&mut self, h: &Hist<Y>, _cfg: &Cfg, st: &mut Stats, sink: &mut Sink) {
        for m in h.new_masks() {
            let ents = &h.table[m as usize];
            if ents.is_empty() {
                continue;
            }
            let closed = causally_closed(&h.recs, m);
            let vis = if closed || Y::VIS_ANY_K { Y::spec(&h.recs, m, Form::Vis) } else { None };
            let cov = if self.use_cov && (closed || self.cov_everywhere) { Y::spec(&h.recs, m, Form::Cov) } else { None };
            if let (Some(v), Some(c)) = (&vis, &cov) {
                if v != c {
                    sink.fail(h, "spec-forms-disagree", m, || format!("K={:?}: visibility model {} vs context-coverage model {}", bits(m), v, c));
                }
            }
            for (i, e) in ents.iter().enumerate() {
                st.checks += 1;
                let got = Y::content(&e.s);
                st.outcome(&got);
                for (want, form) in [(&vis, "visibility"), (&cov, "coverage")] {
                    if let Some(w) = want {
                        if *w != got {
                            let kind = if closed { "spec-mismatch" } else { "spec-mismatch-noncausal" };
                            sink.fail(h, kind, m, || format!("K={:?}: {} shows {} but the {} model says {}", bits(m), h.derivation(m, i), got, form, w));
                            break;
                        }
                    }
                }
            }
        }
    }
    fn fresh(&self) -> Box<dyn Visitor<Y>> {
        Box::new(SpecMatch { cov_everywhere: self.cov_everywhere, use_cov: self.use_cov })
    }
}

// ------------------------------------------------------------------------------------------------
/// C07: contexts of every read entry point.
pub struct CtxCheck;
impl<Y: Sys> Visitor<Y> for CtxCheck {
    fn visit(&mut self, h: &Hist<Y>, cfg: &Cfg, st: &mut Stats, sink: &mut Sink) {
        for m in h.new_masks() {
            for (i, e) in h.table[m as usize].iter().enumerate() {
                st.checks += 1;
                let d = Y::ctx_check(&h.recs, m, &e.s, cfg.actors);
                st.outcome(&Y::reads(&e.s));
                if !d.is_empty() {
                    sink.fail(h, "context-wrong", m, || format!("K={:?}: {}: {}", bits(m), h.derivation(m, i), d.join(" | ")));
                }
            }
        }
    }
    fn fresh(&self) -> Box<dyn Visitor<Y>> {
        Box::new(CtxCheck)
    }
}

// ------------------------------------------------------------------------------------------------
/// C09: re-delivered ops and stale states change nothing.
pub struct DupStale;
impl<Y: Sys> Visitor<Y> for DupStale {
    fn visit(&mut self, h: &Hist<Y>, cfg: &Cfg, st: &mut Stats, sink: &mut Sink) {
        for m in h.new_masks() {
            let nc = !causally_closed(&h.recs, m);
            for (i, e) in h.table[m as usize].iter().enumerate() {
                let before = Y::reads(&e.s);
                st.outcome(&before);
                for j in bits(m) {
                    let mut s2 = e.s.clone();
                    Y::apply(&mut s2, &h.recs[j].op);
                    st.aux_transitions += 1;
                    if s2 != e.s {
                        let after = Y::reads(&s2);
                        let hidden = Y::observable_view(&e.s).is_some() && Y::observable_view(&e.s) == Y::observable_view(&s2);
                        let kind = if after != before {
                            "dup-changes-reads"
                        } else if hidden {
                            "dup-changes-hidden-state"
                        } else {
                            "dup-changes-state"
                        };
                        let kind = if nc { format!("{}-noncausal", kind) } else { kind.to_string() };
                        sink.fail(h, &kind, m, || format!("K={:?}: {} then re-applying op{}: reads {} -> {}; state {:?} -> {:?}", bits(m), h.derivation(m, i), j, before, after, e.s, s2));
                    }
                }
                if cfg.merge && Y::HAS_MERGE {
                    // every reachable state whose knowledge is a subset (incl. the state itself)
                    let mut m2 = m;
                    loop {
                        for (i2, e2) in h.table[m2 as usize].iter().enumerate() {
                            let mut s2 = e.s.clone();
                            Y::merge(&mut s2, &e2.s);
                            st.aux_transitions += 1;
                            if s2 != e.s {
                                let after = Y::reads(&s2);
                                let hidden = Y::observable_view(&e.s).is_some() && Y::observable_view(&e.s) == Y::observable_view(&s2);
                                let kind = if after != before {
                                    "stale-merge-changes-reads"
                                } else if hidden {
                                    "stale-merge-changes-hidden-state"
                                } else {
                                    "stale-merge-changes-state"
                                };
                                let kind = if nc { format!("{}-noncausal", kind) } else { kind.to_string() };
                                sink.fail(h, &kind, m, || {
                                    format!("K={:?}: {} merging stale state {} (K2={:?}): reads {} -> {}; state {:?} -> {:?}", bits(m), h.derivation(m, i), h.derivation(m2, i2), bits(m2), before, after, e.s, s2)
                                });
                            }
                        }
                        if m2 == 0 {
                            break;
                        }
                        m2 = (m2 - 1) & m;
                    }
                }
            }
        }
    }
    fn fresh(&self) -> Box<dyn Visitor<Y>> {
        Box::new(DupStale)
    }
}

// ------------------------------------------------------------------------------------------------
/// C02: merge laws on the pool of all reachable states of the history.
pub struct MergeLaws {
    pub triples: bool,
}
impl<Y: Sys> Visitor<Y> for MergeLaws {
    fn visit(&mut self, h: &Hist<Y>, _cfg: &Cfg, st: &mut Stats, sink: &mut Sink) {
        let newr = h.new_masks();
        let mut pool: Vec<(Mask, usize)> = vec![];
        for m in 0..(h.table.len() as Mask) {
            for i in 0..h.table[m as usize].len() {
                pool.push((m, i));
            }
        }
        let is_new = |p: &(Mask, usize)| newr.contains(&p.0);
        let get = |p: &(Mask, usize)| &h.table[p.0 as usize][p.1].s;
        let mg = |a: &Y::S, b: &Y::S, st: &mut Stats| {
            let mut s = a.clone();
            Y::merge(&mut s, b);
            st.aux_transitions += 1;
            s
        };
        for a in pool.iter() {
            if is_new(a) {
                let aa = mg(get(a), get(a), st);
                let (r1, r2) = (Y::reads(&aa), Y::reads(get(a)));
                st.outcome(&r2);
                if r1 != r2 {
                    sink.fail(h, "merge-not-idempotent", a.0, || format!("a = {}: a+a reads {} but a reads {}", h.derivation(a.0, a.1), r1, r2));
                }
            }
            for b in pool.iter() {
                if !(is_new(a) || is_new(b)) && !self.triples {
                    continue;
                }
                let ab = mg(get(a), get(b), st);
                if (is_new(a) || is_new(b)) && a < b {
                    let ba = mg(get(b), get(a), st);
                    let (r1, r2) = (Y::reads(&ab), Y::reads(&ba));
                    st.checks += 1;
                    if r1 != r2 {
                        sink.fail(h, "merge-not-commutative", a.0 | b.0, || format!("a = {}; b = {}: a+b reads {} but b+a reads {}", h.derivation(a.0, a.1), h.derivation(b.0, b.1), r1, r2));
                    }
                }
                if self.triples {
                    for c in pool.iter() {
                        if !(is_new(a) || is_new(b) || is_new(c)) {
                            continue;
                        }
                        let ab_c = mg(&ab, get(c), st);
                        let bc = mg(get(b), get(c), st);
                        let a_bc = mg(get(a), &bc, st);
                        st.checks += 1;
                        let (r1, r2) = (Y::reads(&ab_c), Y::reads(&a_bc));
                        if r1 != r2 {
                            sink.fail(h, "merge-not-associative", a.0 | b.0 | c.0, || {
                                format!("a = {}; b = {}; c = {}: (a+b)+c reads {} but a+(b+c) reads {}", h.derivation(a.0, a.1), h.derivation(b.0, b.1), h.derivation(c.0, c.1), r1, r2)
                            });
                        }
                    }
                }
            }
        }
    }
    fn fresh(&self) -> Box<dyn Visitor<Y>> {
        Box::new(MergeLaws { triples: self.triples })
    }
}

// ------------------------------------------------------------------------------------------------
/// C16: validate_op on every (state, op) pair of the history.
pub struct ValidateOp;
impl<Y: Sys> Visitor<Y> for ValidateOp {
    fn visit(&mut self, h: &Hist<Y>, _cfg: &Cfg, st: &mut Stats, sink: &mut Sink) {
        let n = h.len();
        if n == 0 {
            return;
        }
        let newr = h.new_masks();
        for m in 0..(h.table.len() as Mask) {
            for (i, e) in h.table[m as usize].iter().enumerate() {
                for j in 0..n {
                    if !(newr.contains(&m) || j == n - 1) {
                        continue;
                    }
                    st.checks += 1;
                    let got = Y::validate_op(&e.s, &h.recs[j].op);
                    let want = Y::expect_valid(&h.recs, m, j);
                    st.outcome(&format!("{:?}{:?}", got.is_ok(), want));
                    match (want, &got) {
                        (Expect::Accept, Err(err)) => {
                            let origin = m == h.recs[j].vis;
                            let kind = if err.starts_with("Value(") {
                                "false-reject-nested"
                            } else if origin {
                                "false-reject-at-origin"
                            } else {
                                "false-reject"
                            };
                            sink.fail(h, kind, m, || {
                                format!("K={:?}: {}: validate_op(op{} = {}) = Err({}) although every earlier update of its actor is applied", bits(m), h.derivation(m, i), j, Y::op_debug(&h.recs[j].op), err)
                            })
                        }
                        (Expect::Reject, Ok(())) => sink.fail(h, "false-accept", m, || {
                            format!("K={:?}: {}: validate_op(op{} = {}) = Ok although applying it skips an update of its actor", bits(m), h.derivation(m, i), j, Y::op_debug(&h.recs[j].op))
                        }),
                        _ => {}
                    }
                }
            }
        }
    }
    fn fresh(&self) -> Box<dyn Visitor<Y>> {
        Box::new(ValidateOp)
    }
}

// ------------------------------------------------------------------------------------------------
/// C17: validate_merge on all pairs of reachable states.
pub struct ValidateMerge {
    /// one actor id is (mis)used at two replicas: Err iff the oracle sees a double-spent dot
    pub misuse: bool,
}
impl<Y: Sys> Visitor<Y> for ValidateMerge {
    fn visit(&mut self, h: &Hist<Y>, _cfg: &Cfg, st: &mut Stats, sink: &mut Sink) {
        let newr = h.new_masks();
        let mut pool: Vec<(Mask, usize)> = vec![];
        for m in 0..(h.table.len() as Mask) {
            for i in 0..h.table[m as usize].len() {
                pool.push((m, i));
            }
        }
        for a in pool.iter() {
            for b in pool.iter() {
                if !(newr.contains(&a.0) || newr.contains(&b.0)) || a > b {
                    continue;
                }
                let (sa, sb) = (&h.table[a.0 as usize][a.1].s, &h.table[b.0 as usize][b.1].s);
                let ab = Y::validate_merge(sa, sb);
                let ba = Y::validate_merge(sb, sa);
                st.checks += 1;
                st.aux_transitions += 2;
                st.outcome(&format!("{}{}", ab.is_ok(), ba.is_ok()));
                if ab.is_ok() != ba.is_ok() {
                    sink.fail(h, "validate-merge-asymmetric", a.0 | b.0, || format!("a = {}; b = {}: a.validate_merge(b) = {:?} but b.validate_merge(a) = {:?}", h.derivation(a.0, a.1), h.derivation(b.0, b.1), ab, ba));
                }
                let spent = Y::double_spent(sa, sb);
                if !self.misuse {
                    if let Err(e) = &ab {
                        let kind = format!("false-merge-reject{}", Y::merge_reject_site(&h.recs, sa, sb));
                        sink.fail(h, &kind, a.0 | b.0, || format!("correct use, a = {}; b = {}: validate_merge = Err({})", h.derivation(a.0, a.1), h.derivation(b.0, b.1), e));
                    }
                } else if spent && ab.is_ok() {
                    let kind = format!("missed-double-spend{}", Y::double_spent_site(sa, sb));
                    sink.fail(h, &kind, a.0 | b.0, || format!("misuse, a = {} ({:?}); b = {} ({:?}): a dot witnesses different elements but validate_merge = Ok", h.derivation(a.0, a.1), sa, h.derivation(b.0, b.1), sb));
                } else if !spent && ab.is_err() {
                    sink.fail(h, "false-merge-reject", a.0 | b.0, || format!("a = {} ({:?}); b = {} ({:?}): no dot witnesses different elements but validate_merge = {:?}", h.derivation(a.0, a.1), sa, h.derivation(b.0, b.1), sb, ab));
                }
            }
        }
    }
    fn fresh(&self) -> Box<dyn Visitor<Y>> {
        Box::new(ValidateMerge { misuse: self.misuse })
    }
}

// ------------------------------------------------------------------------------------------------
/// C18: reset_remove against the dot-subtraction model, for every clock of the grid.
pub struct ResetRemoveCheck {
    pub actors: u8,
    pub max_counter: u64,
    /// also check rr(c1);rr(c2) == rr(c1 join c2) for every pair of grid clocks (quadratic)
    pub compose: bool,
}
fn rr_model(v: &RrView, c: &Vec<(u8, u64)>) -> RrView {
    use crate::systems::clk_sub;
    let mut elems = vec![];
    for (name, w, nested) in v.elems.iter() {
        let w2 = clk_sub(w, c);
        let n2 = nested.as_ref().map(|n| Box::new(rr_model(n, c)));
        if !w2.is_empty() {
            elems.push((name.clone(), w2, n2));
        }
    }
    let mut pend: std::collections::BTreeMap<Vec<(u8, u64)>, std::collections::BTreeSet<String>> = Default::default();
    for (ctx, names) in v.pending.iter() {
        let c2 = clk_sub(ctx, c);
        if !c2.is_empty() {
            pend.entry(c2).or_default().extend(names.iter().cloned());
        }
    }
    elems.sort();
    RrView { clock: clk_sub(&v.clock, c), elems, pending: pend.into_iter().map(|(k, v)| (k, v.into_iter().collect())).collect() }
}
pub fn clock_grid(actors: u8, maxc: u64) -> Vec<VClock<u8>> {
    let mut out = vec![VClock::new()];
    for a in 0..actors {
        let mut next = vec![];
        for c in out.iter() {
            for n in 0..=maxc {
                let mut c2 = c.clone();
                if n > 0 {
                    c2.dots.insert(a, n);
                }
                next.push(c2);
            }
        }
        out = next;
    }
    out
}
impl<Y: Sys> Visitor<Y> for ResetRemoveCheck {
    fn visit(&mut self, h: &Hist<Y>, _cfg: &Cfg, st: &mut Stats, sink: &mut Sink) {
        use crate::systems::{clk_join, cv};
        let grid = clock_grid(self.actors, self.max_counter);
        for m in h.new_masks() {
            for (i, e) in h.table[m as usize].iter().enumerate() {
                let v0 = Y::rr_view(&e.s);
                for c in grid.iter() {
                    let mut s1 = e.s.clone();
                    Y::reset_remove(&mut s1, c);
                    st.aux_transitions += 1;
                    st.checks += 1;
                    let got = Y::rr_view(&s1);
                    let want = rr_model(&v0, &cv(c));
                    st.outcome(&format!("{:?}", got));
                    if got != want {
                        let kind = if got.pending != want.pending { "reset-remove-pending" } else { "reset-remove-wrong" };
                        sink.fail(h, kind, m, || format!("K={:?}: {} = {:?}; reset_remove({:?}) gives {:?} but forgetting exactly the covered dots gives {:?}", bits(m), h.derivation(m, i), v0, cv(c), got, want));
                        continue;
                    }
                    // idempotence and composition with every second clock
                    let mut s2 = s1.clone();
                    Y::reset_remove(&mut s2, c);
                    st.aux_transitions += 1;
                    if Y::rr_view(&s2) != got {
                        sink.fail(h, "reset-remove-not-idempotent", m, || format!("K={:?}: {}; reset_remove({:?}) twice differs from once", bits(m), h.derivation(m, i), cv(c)));
                    }
                    for c2 in grid.iter().filter(|_| self.compose) {
                        let mut a = s1.clone();
                        Y::reset_remove(&mut a, c2);
                        let mut b = e.s.clone();
                        Y::reset_remove(&mut b, &crate::systems::mk_clock(&clk_join(&cv(c), &cv(c2))));
                        st.aux_transitions += 2;
                        if Y::rr_view(&a) != Y::rr_view(&b) {
                            sink.fail(h, "reset-remove-not-compositional", m, || format!("K={:?}: {}; reset_remove({:?}) then ({:?}) = {:?} but the join gives {:?}", bits(m), h.derivation(m, i), cv(c), cv(c2), Y::rr_view(&a), Y::rr_view(&b)));
                        }
                    }
                }
                // identities
                let mut s = e.s.clone();
                Y::reset_remove(&mut s, &VClock::new());
                if Y::rr_view(&s) != v0 {
                    sink.fail(h, "reset-remove-empty-not-nop", m, || format!("K={:?}: {}; reset_remove(empty) changed the state", bits(m), h.derivation(m, i)));
                }
            }
        }
    }
    fn fresh(&self) -> Box<dyn Visitor<Y>> {
        Box::new(ResetRemoveCheck { actors: self.actors, max_counter: self.max_counter, compose: self.compose })
    }
}

// ------------------------------------------------------------------------------------------------
/// C19: serde round trip at every save point, and identical behaviour afterwards.
pub struct SerdeCheck {
    /// also compare every merge with every reachable peer state between restored and original replica
    pub resume_merge: bool,
}
impl<Y: Sys> Visitor<Y> for SerdeCheck {
    fn visit(&mut self, h: &Hist<Y>, cfg: &Cfg, st: &mut Stats, sink: &mut Sink) {
        let n = h.len();
        if n > 0 {
            // the newest op itself
            let op = &h.recs[n - 1].op;
            st.checks += 1;
            match Y::op_roundtrip(op) {
                Err(e) => sink.fail(h, "op-ser-error", 0, || format!("op{} = {}: {}", n - 1, Y::op_debug(op), e)),
                Ok(op2) => {
                    if Y::op_debug(&op2) != Y::op_debug(op) {
                        sink.fail(h, "op-roundtrip-differs", 0, || format!("op{} = {} restored as {}", n - 1, Y::op_debug(op), Y::op_debug(&op2)));
                    }
                }
            }
        }
        for m in h.new_masks() {
            for (i, e) in h.table[m as usize].iter().enumerate() {
                st.checks += 1;
                st.aux_transitions += 1;
                let j = match Y::to_json(&e.s) {
                    Ok(j) => j,
                    Err(err) => {
                        let kind = if Y::pending(&e.s) > 0 { "ser-error-pending" } else { "ser-error" };
                        sink.fail(h, kind, m, || format!("K={:?}: {} = {:?}: to_string failed: {}", bits(m), h.derivation(m, i), e.s, err));
                        continue;
                    }
                };
                st.outcome(&j);
                let r = match Y::from_json(&j) {
                    Ok(r) => r,
                    Err(err) => {
                        sink.fail(h, "deser-error", m, || format!("K={:?}: {}: from_str({}) failed: {}", bits(m), h.derivation(m, i), j, err));
                        continue;
                    }
                };
                if r != e.s || Y::reads(&r) != Y::reads(&e.s) {
                    sink.fail(h, "roundtrip-differs", m, || format!("K={:?}: {}: {:?} restored as {:?}", bits(m), h.derivation(m, i), e.s, r));
                    continue;
                }
                // resume: every op of the history (enabled or not: also duplicates) and every merge partner
                for jx in 0..n {
                    let mut a = e.s.clone();
                    let mut b = r.clone();
                    Y::apply(&mut a, &h.recs[jx].op);
                    Y::apply(&mut b, &h.recs[jx].op);
                    st.aux_transitions += 2;
                    if a != b || Y::reads(&a) != Y::reads(&b) {
                        sink.fail(h, "resume-differs", m, || format!("K={:?}: {}: applying op{} to the restored replica gives {:?}, to the original {:?}", bits(m), h.derivation(m, i), jx, b, a));
                    }
                }
                if cfg.merge && Y::HAS_MERGE && self.resume_merge {
                    for m2 in 0..(h.table.len() as Mask) {
                        for e2 in h.table[m2 as usize].iter() {
                            let mut a = e.s.clone();
                            let mut b = r.clone();
                            Y::merge(&mut a, &e2.s);
                            Y::merge(&mut b, &e2.s);
                            let mut c = e2.s.clone();
                            let mut d = e2.s.clone();
                            Y::merge(&mut c, &e.s);
                            Y::merge(&mut d, &r);
                            st.aux_transitions += 4;
                            if a != b || c != d {
                                sink.fail(h, "resume-differs", m, || format!("K={:?}: {}: merging with a peer state differs between restored and original replica", bits(m), h.derivation(m, i)));
                            }
                        }
                    }
                }
            }
        }
    }
    fn fresh(&self) -> Box<dyn Visitor<Y>> {
        Box::new(SerdeCheck { resume_merge: self.resume_merge })
    }
}

// ------------------------------------------------------------------------------------------------
/// C20: equal knowledge gives `==` states; no residue once removes are fully delivered.
pub struct EqResidue;
impl<Y: Sys> Visitor<Y> for EqResidue {
    fn visit(&mut self, h: &Hist<Y>, _cfg: &Cfg, st: &mut Stats, sink: &mut Sink) {
        for m in h.new_masks() {
            let ents = &h.table[m as usize];
            if ents.is_empty() {
                continue;
            }
            st.checks += 1;
            let closed = causally_closed(&h.recs, m);
            if ents.len() > 1 && closed {
                let v0 = Y::observable_view(&ents[0].s);
                let same_obs = v0.is_some() && ents.iter().all(|e| Y::observable_view(&e.s) == v0);
                let kind = if same_obs { "state-neq-hidden" } else { "state-neq" };
                sink.fail(h, kind, m, || format!("K={:?}: {} = {:?} but {} = {:?}", bits(m), h.derivation(m, 0), ents[0].s, h.derivation(m, 1), ents[1].s));
            }
            for (i, e) in ents.iter().enumerate() {
                st.outcome(&format!("{:?}", Y::reads(&e.s)));
                if !closed {
                    continue;
                }
                let res = Y::residue(&e.s);
                if !res.is_empty() {
                    sink.fail(h, "residue", m, || format!("K={:?} (every remove has arrived with everything it observed): {} = {:?} keeps {}", bits(m), h.derivation(m, i), e.s, res.join(" | ")));
                } else if let Some(canon) = Y::canonical_rebuild(&e.s) {
                    if canon != e.s {
                        sink.fail(h, "not-canonical", m, || format!("K={:?}: {} = {:?} differs from the state rebuilt from its clock and surviving elements {:?}", bits(m), h.derivation(m, i), e.s, canon));
                    }
                }
            }
        }
    }
    fn fresh(&self) -> Box<dyn Visitor<Y>> {
        Box::new(EqResidue)
    }
}

/// Run several visitors on the same exploration.
pub struct Multi<Y: Sys>(pub Vec<Box<dyn Visitor<Y>>>);
impl<Y: Sys> Visitor<Y> for Multi<Y> {
    fn visit(&mut self, h: &Hist<Y>, cfg: &Cfg, st: &mut Stats, sink: &mut Sink) {
        for v in self.0.iter_mut() {
            v.visit(h, cfg, st, sink);
        }
    }
    fn fresh(&self) -> Box<dyn Visitor<Y>> {
        Box::new(Multi(self.0.iter().map(|v| v.fresh()).collect()))
    }
}

// ------------------------------------------------------------------------------------------------
/// C12: one global total order — across *all* states of the whole lattice "x precedes y" is antisymmetric.
pub trait SeqSys: Sys {
    fn sequence(s: &Self::S) -> Vec<u8>;
}
impl SeqSys for crate::systems::list::Li {
    fn sequence(s: &Self::S) -> Vec<u8> {
        crate::systems::list::seq(s)
    }
}
impl SeqSys for crate::systems::glist::Gl {
    fn sequence(s: &Self::S) -> Vec<u8> {
        crate::systems::glist::seq(s)
    }
}
pub struct OrderCheck;
impl<Y: SeqSys> Visitor<Y> for OrderCheck {
    fn visit(&mut self, h: &Hist<Y>, _cfg: &Cfg, st: &mut Stats, sink: &mut Sink) {
        // before[x][y] = some state shows x before y
        let mut before = [[None::<(Mask, usize)>; 16]; 16];
        for m in 0..(h.table.len() as Mask) {
            for (i, e) in h.table[m as usize].iter().enumerate() {
                let v = Y::sequence(&e.s);
                for a in 0..v.len() {
                    for b in a + 1..v.len() {
                        let (x, y) = (v[a] as usize % 16, v[b] as usize % 16);
                        if before[x][y].is_none() {
                            before[x][y] = Some((m, i));
                        }
                    }
                }
            }
        }
        st.checks += 1;
        let newr = h.new_masks();
        for x in 0..16 {
            for y in 0..16 {
                if let (Some(p), Some(q)) = (before[x][y], before[y][x]) {
                    // attribute to the node where the newest op is involved
                    if newr.contains(&p.0) || newr.contains(&q.0) {
                        sink.fail(h, "relative-order-flips", p.0 | q.0, || {
                            format!("element {} precedes {} in {} = {:?} but follows it in {} = {:?}", x, y, h.derivation(p.0, p.1), Y::sequence(&h.table[p.0 as usize][p.1].s), h.derivation(q.0, q.1), Y::sequence(&h.table[q.0 as usize][q.1].s))
                        });
                        return;
                    }
                }
            }
        }
    }
    fn fresh(&self) -> Box<dyn Visitor<Y>> {
        Box::new(OrderCheck)
    }
}

/// C13 (List): in every reachable state, for every actor whose ops are all delivered and every index,
/// insert_index / append / delete_index behave like Vec::insert / push / remove.
pub struct ListIndex;
impl Visitor<crate::systems::list::Li> for ListIndex {
    fn visit(&mut self, h: &Hist<crate::systems::list::Li>, cfg: &Cfg, st: &mut Stats, sink: &mut Sink) {
        use crate::systems::list::seq;
        use crdts::CmRDT;
        for m in h.new_masks() {
            for (i, e) in h.table[m as usize].iter().enumerate() {
                let base = seq(&e.s);
                st.outcome(&format!("{:?}", base));
                for a in 0..cfg.actors {
                    if !h.recs.iter().enumerate().all(|(j, r)| r.author != a || m >> j & 1 == 1) {
                        continue;
                    }
                    for ix in 0..=base.len() + 1 {
                        st.checks += 1;
                        st.aux_transitions += 1;
                        let op = e.s.insert_index(ix, 200, a);
                        let mut s2 = e.s.clone();
                        s2.apply(op);
                        let mut want = base.clone();
                        want.insert(ix.min(base.len()), 200);
                        if seq(&s2) != want {
                            sink.fail(h, "insert-index-misplaced", m, || format!("K={:?}: {} = {:?}; actor {} insert_index({}, 200) gives {:?}, Vec model {:?}", bits(m), h.derivation(m, i), base, a, ix, seq(&s2), want));
                        }
                        match e.s.delete_index(ix, a) {
                            None => {
                                if ix < base.len() {
                                    sink.fail(h, "delete-index-none", m, || format!("K={:?}: {} = {:?}; delete_index({}) returned None", bits(m), h.derivation(m, i), base, ix));
                                }
                            }
                            Some(op) => {
                                let mut s3 = e.s.clone();
                                s3.apply(op);
                                st.aux_transitions += 1;
                                let mut want = base.clone();
                                if ix < want.len() {
                                    want.remove(ix);
                                }
                                if ix >= base.len() || seq(&s3) != want {
                                    sink.fail(h, "delete-index-wrong", m, || format!("K={:?}: {} = {:?}; actor {} delete_index({}) gives {:?}, Vec model {:?}", bits(m), h.derivation(m, i), base, a, ix, seq(&s3), want));
                                }
                            }
                        }
                    }
                    let mut s4 = e.s.clone();
                    s4.apply(e.s.append(201, a));
                    let mut want = base.clone();
                    want.push(201);
                    if seq(&s4) != want {
                        sink.fail(h, "append-misplaced", m, || format!("K={:?}: {} = {:?}; actor {} append(201) gives {:?}", bits(m), h.derivation(m, i), base, a, seq(&s4)));
                    }
                }
            }
        }
    }
    fn fresh(&self) -> Box<dyn Visitor<crate::systems::list::Li>> {
        Box::new(ListIndex)
    }
}

/// C13 (GList): insert / insert_after / insert_before against the Vec model in every reachable state.
pub struct GListIndex;
impl Visitor<crate::systems::glist::Gl> for GListIndex {
    fn visit(&mut self, h: &Hist<crate::systems::glist::Gl>, _cfg: &Cfg, st: &mut Stats, sink: &mut Sink) {
        use crate::systems::glist::seq;
        use crdts::CmRDT;
        for m in h.new_masks() {
            for (i, e) in h.table[m as usize].iter().enumerate() {
                let base = seq(&e.s);
                st.outcome(&format!("{:?}", base));
                // elements equal to an existing one are legitimate too: try a fresh element and copies of neighbours
                let mut elems: Vec<u8> = vec![200];
                elems.extend(base.iter().cloned());
                elems.dedup();
                for &el in elems.iter() {
                    for ix in 0..=base.len() {
                        st.checks += 1;
                        st.aux_transitions += 1;
                        let mut s2 = e.s.clone();
                        s2.apply(e.s.insert(ix, el));
                        let mut want = base.clone();
                        want.insert(ix, el);
                        if seq(&s2) != want {
                            sink.fail(h, "glist-insert-misplaced", m, || format!("K={:?}: {} = {:?}; insert({}, {}) gives {:?}, Vec model {:?}", bits(m), h.derivation(m, i), base, ix, el, seq(&s2), want));
                        }
                    }
                    for j in 0..base.len() {
                        st.aux_transitions += 2;
                        let id = e.s.get(j).cloned();
                        let mut s3 = e.s.clone();
                        s3.apply(e.s.insert_after(id.as_ref(), el));
                        let mut want = base.clone();
                        want.insert(j + 1, el);
                        if seq(&s3) != want {
                            sink.fail(h, "glist-insert-after-misplaced", m, || format!("K={:?}: {} = {:?}; insert_after(get({}), {}) gives {:?}, Vec model {:?}", bits(m), h.derivation(m, i), base, j, el, seq(&s3), want));
                        }
                        let mut s4 = e.s.clone();
                        s4.apply(e.s.insert_before(id.as_ref(), el));
                        let mut want = base.clone();
                        want.insert(j, el);
                        if seq(&s4) != want {
                            sink.fail(h, "glist-insert-before-misplaced", m, || format!("K={:?}: {} = {:?}; insert_before(get({}), {}) gives {:?}, Vec model {:?}", bits(m), h.derivation(m, i), base, j, el, seq(&s4), want));
                        }
                    }
                }
            }
        }
    }
    fn fresh(&self) -> Box<dyn Visitor<crate::systems::glist::Gl>> {
        Box::new(GListIndex)
    }
}

// ------------------------------------------------------------------------------------------------
/// Self-check of the lattice reduction (DESIGN.md §3.7): an independent, deliberately naive enumerator
/// delivers every admissible permutation of the ops without any table or deduplication; the set of end
/// states must equal what the lattice computed for the full knowledge set, and the number of
/// permutations must equal the schedule count of the DP.  A mismatch is a machinery error.
pub struct SelfCheck;
fn brute<Y: Sys>(h: &Hist<Y>, disc: Disc, done: Mask, s: &Y::S, out: &mut Vec<Y::S>, count: &mut u64, st: &mut Stats) {
    let n = h.len();
    if done == h.full() {
        *count += 1;
        if !out.iter().any(|x| x == s) {
            out.push(s.clone());
        }
        return;
    }
    for j in 0..n {
        if done >> j & 1 == 1 {
            continue;
        }
        let ok = match disc {
            Disc::Causal => h.recs[j].vis & !done == 0,
            Disc::Fifo => (0..j).all(|i| h.recs[i].author != h.recs[j].author || done >> i & 1 == 1),
            Disc::Any => true,
        };
        if !ok {
            continue;
        }
        let mut s2 = s.clone();
        Y::apply(&mut s2, &h.recs[j].op);
        st.aux_transitions += 1;
        brute(h, disc, done | 1 << j, &s2, out, count, st);
    }
}
impl<Y: Sys> Visitor<Y> for SelfCheck {
    fn visit(&mut self, h: &Hist<Y>, cfg: &Cfg, st: &mut Stats, sink: &mut Sink) {
        if h.len() == 0 {
            return;
        }
        let mut out = vec![];
        let mut count = 0;
        brute(h, cfg.disc, 0, &Y::init(), &mut out, &mut count, st);
        st.checks += 1;
        let lattice: Vec<&Y::S> = h.table[h.full() as usize].iter().filter(|e| e.pure_ops).map(|e| &e.s).collect();
        let same = out.len() == lattice.len() && out.iter().all(|s| lattice.iter().any(|l| *l == s));
        let dp = count_schedules(h, cfg.disc);
        if !same || dp != count {
            sink.fail(h, "explorer-self-check", h.full(), || format!("brute force: {} schedules, {} distinct end states; lattice: {} schedules, {} ops-only states", count, out.len(), dp, lattice.len()));
        }
    }
    fn fresh(&self) -> Box<dyn Visitor<Y>> {
        Box::new(SelfCheck)
    }
}
