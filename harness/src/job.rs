//! A job = one configuration (system, alphabet, bound, discipline, transition kinds) + its oracles,
//! explored to completion; plus minimisation of failures to canonical cores (DESIGN.md §3.6).

use crate::engine::*;
use std::collections::{BTreeMap, HashMap};

/// stop minimising once this many cores outside the known-findings list have been found in one job
pub const MAX_UNLISTED_CORES: usize = 4;

/// the label of a configuration without its op bound: quick and thorough tiers of one configuration share it
pub fn family_key(label: &str) -> String {
    let mut key = String::new();
    let b = label.as_bytes();
    let mut i = 0;
    while i < b.len() {
        if label[i..].starts_with("n<=") {
            key.push('n');
            i += 3;
            while i < b.len() && b[i].is_ascii_digit() {
                i += 1;
            }
        } else {
            key.push(b[i] as char);
            i += 1;
        }
    }
    key
}

pub struct CoreFailure {
    pub kind: String,
    pub core_key: String,
    pub core: Vec<Abs>,
    pub core_text: String,
    /// the first (smallest) original failing history that minimised to this core
    pub example: Failure,
    pub example_text: String,
    pub histories: u64,
}

pub struct JobOutcome {
    pub label: String,
    pub system: &'static str,
    pub cfg: Cfg,
    pub stats: Stats,
    pub cores: Vec<CoreFailure>,
    pub failing_histories: u64,
    pub failure_events: u64,
    pub overflow: bool,
    pub samples: Vec<serde_json::Value>,
    pub schedules_sample: u64,
    pub wall_s: f64,
    /// failing histories found in the golden failing-set, per finding id
    pub golden_hits: BTreeMap<String, u64>,
    /// learn mode: (failure id, kind, core key) of every failing history
    pub learned: Vec<(u64, String, String)>,
    pub sig_key: String,
    /// a golden failing-set was available for this configuration: failures outside it are violations
    pub golden_used: bool,
}

pub trait JobT: Send + Sync {
    fn label(&self) -> String;
    fn system(&self) -> &'static str;
    /// `known`: (kind, core key) pairs a listed finding matches for this property and system; once several
    /// cores outside it are established the remaining failures are only counted, not minimised
    /// `golden`: the failing histories (failure ids) listed for this configuration family, each with its
    /// finding id; `None` = no golden set recorded (fall back to matching by core)
    fn run(&self, threads: usize, site_kinds: &std::collections::HashSet<String>, known: &std::collections::HashSet<(String, String)>, golden: Option<&HashMap<u64, String>>) -> JobOutcome;
    /// key of the configuration family (label without its op bound)
    fn family(&self) -> String;
    /// re-execute one abstract history with this job's oracles; returns (text report, failures)
    fn replay(&self, abs: &[Abs]) -> (String, Vec<Failure>);
    /// Behavioural signature of a (core) history under this job's delivery discipline and transition kinds:
    /// per knowledge set the number of ==-distinct states and of distinct reads, plus the failures reported.
    /// A listed core whose signature changes is reported again (it "fails differently").
    fn signature(&self, abs: &[Abs]) -> (String, String);
    /// stand-alone Rust test for a failure of `abs` at knowledge set `mask`
    fn rust_test(&self, abs: &[Abs], mask: Mask, kind: &str, detail: &str) -> Option<String>;
}

pub struct Job<Y: Sys> {
    pub cfg: Cfg,
    pub visitor: Box<dyn Visitor<Y>>,
}

pub fn job<Y: Sys>(cfg: Cfg, visitor: impl Visitor<Y> + 'static) -> Box<dyn JobT> {
    Box::new(Job::<Y> { cfg, visitor: Box::new(visitor) })
}

fn delete_op(abs: &[Abs], i: usize) -> Vec<Abs> {
    let mut out = vec![];
    for (j, a) in abs.iter().enumerate() {
        if j == i {
            continue;
        }
        let mut a2 = *a;
        let low = a.vis & ((1 << i) - 1);
        let high = (a.vis >> (i + 1)) << i;
        a2.vis = low | high;
        out.push(a2);
    }
    out
}

fn candidates(abs: &[Abs], cmds: &[Cmd]) -> Vec<Vec<Abs>> {
    let n = abs.len();
    let mut out = vec![];
    // 1. delete an op (last first)
    for i in (0..n).rev() {
        out.push(delete_op(abs, i));
    }
    // 2. drop an element of a vis set (with everything in the set that depends on it)
    for i in 0..n {
        for j in 0..i {
            if abs[i].vis >> j & 1 == 1 {
                let mut v = abs[i].vis & !(1 << j);
                for k in (j + 1)..i {
                    if v >> k & 1 == 1 && abs[k].vis >> j & 1 == 1 {
                        v &= !(1 << k);
                    }
                }
                // later ops that saw op i keep a causally closed vis automatically (they still contain j)
                let mut c = abs.to_vec();
                c[i].vis = v;
                out.push(c);
            }
        }
    }
    // 3. re-author to a smaller actor
    for i in 0..n {
        for a in 0..abs[i].author {
            let mut c = abs.to_vec();
            c[i].author = a;
            out.push(c);
        }
    }
    // 4. simpler command (earlier in the alphabet)
    for i in 0..n {
        if let Some(pos) = cmds.iter().position(|c| *c == abs[i].cmd) {
            for c2 in cmds[..pos].iter() {
                let mut c = abs.to_vec();
                c[i].cmd = *c2;
                out.push(c);
            }
        }
    }
    // 5. variant 0
    for i in 0..n {
        if abs[i].variant > 0 {
            let mut c = abs.to_vec();
            c[i].variant = 0;
            out.push(c);
        }
    }
    out
}

fn permutations(n: usize) -> Vec<Vec<usize>> {
    fn rec(cur: &mut Vec<usize>, used: &mut Vec<bool>, n: usize, out: &mut Vec<Vec<usize>>) {
        if cur.len() == n {
            out.push(cur.clone());
            return;
        }
        for i in 0..n {
            if !used[i] {
                used[i] = true;
                cur.push(i);
                rec(cur, used, n, out);
                cur.pop();
                used[i] = false;
            }
        }
    }
    let mut out = vec![];
    rec(&mut vec![], &mut vec![false; n], n, &mut out);
    out
}

/// Canonical encoding of an abstract history up to op order (linear extensions), actor names and
/// key / member names.  Purely syntactic: used only as the identity of a failing pattern.
pub fn canon_key<Y: Sys>(abs: &[Abs]) -> String {
    let n = abs.len();
    if n == 0 {
        return "[]".into();
    }
    let mut acts: Vec<u8> = abs.iter().map(|a| a.author).collect();
    acts.sort();
    acts.dedup();
    let nact = acts.len();
    let mut keys: Vec<u8> = vec![];
    let mut mems: Vec<u8> = vec![];
    for a in abs {
        let (cx, cy) = Y::classes(a.cmd);
        for (cl, v) in [(cx, a.cmd.x), (cy, a.cmd.y)] {
            match cl {
                Class::Key if !keys.contains(&v) => keys.push(v),
                Class::Member if !mems.contains(&v) => mems.push(v),
                _ => {}
            }
        }
    }
    keys.sort();
    mems.sort();
    let mut best: Option<String> = None;
    for order in permutations(n) {
        // order[p] = old index placed at new position p; must be a linear extension of vis
        let mut pos = vec![0usize; n];
        for (p, &o) in order.iter().enumerate() {
            pos[o] = p;
        }
        let ok = (0..n).all(|o| (0..n).all(|j| abs[o].vis >> j & 1 == 0 || pos[j] < pos[o]));
        if !ok {
            continue;
        }
        for ap in permutations(nact) {
            for kp in permutations(keys.len()) {
                for mp in permutations(mems.len()) {
                    let mut enc = String::new();
                    for &o in order.iter() {
                        let a = abs[o];
                        let mut vis = 0u32;
                        for j in 0..n {
                            if a.vis >> j & 1 == 1 {
                                vis |= 1 << pos[j];
                            }
                        }
                        let (cx, cy) = Y::classes(a.cmd);
                        let ren = |cl: Class, v: u8| -> u8 {
                            match cl {
                                // present names are mapped onto 0..k-1 (every bijection is tried)
                                Class::Key => kp[keys.iter().position(|k| *k == v).unwrap()] as u8,
                                Class::Member => mp[mems.iter().position(|k| *k == v).unwrap()] as u8,
                                Class::None => v,
                            }
                        };
                        enc.push_str(&format!("a{}:{}.{}.{}:v{:x}:{};", ap[acts.iter().position(|x| *x == a.author).unwrap()], a.cmd.k, ren(cx, a.cmd.x), ren(cy, a.cmd.y), vis, a.variant));
                    }
                    if best.as_ref().map_or(true, |b| enc < *b) {
                        best = Some(enc);
                    }
                }
            }
        }
    }
    best.unwrap()
}

impl<Y: Sys> Job<Y> {
    fn fails(&self, abs: &[Abs], kind: &str, cache: &mut HashMap<(Vec<Abs>, String), bool>) -> bool {
        let key = (abs.to_vec(), kind.to_string());
        if let Some(b) = cache.get(&key) {
            return *b;
        }
        let mut v = self.visitor.fresh();
        let mut sink = Sink::default();
        let mut st = Stats::default();
        let r = match rebuild::<Y>(abs, &self.cfg, Some((v.as_mut(), &mut sink)), &mut st) {
            None => false,
            Some(_) => sink.failures.iter().any(|f| f.kind == kind),
        };
        cache.insert(key, r);
        r
    }

    fn core_of(&self, abs: &[Abs], kind: &str, cache: &mut HashMap<(Vec<Abs>, String), bool>, cores: &mut HashMap<(Vec<Abs>, String), Vec<Abs>>) -> Vec<Abs> {
        let key = (abs.to_vec(), kind.to_string());
        if let Some(c) = cores.get(&key) {
            return c.clone();
        }
        let mut result = abs.to_vec();
        for cand in candidates(abs, &self.cfg.cmds) {
            if cand.len() > self.cfg.n {
                continue;
            }
            if self.fails(&cand, kind, cache) {
                result = self.core_of(&cand, kind, cache, cores);
                break;
            }
        }
        cores.insert(key, result.clone());
        result
    }
}

impl<Y: Sys> JobT for Job<Y> {
    fn label(&self) -> String {
        self.cfg.label.clone()
    }
    fn system(&self) -> &'static str {
        Y::NAME
    }
    fn family(&self) -> String {
        family_key(&self.cfg.label)
    }
    fn run(&self, threads: usize, site_kinds: &std::collections::HashSet<String>, known: &std::collections::HashSet<(String, String)>, golden: Option<&HashMap<u64, String>>) -> JobOutcome {
        let t0 = std::time::Instant::now();
        let res = explore::<Y>(&self.cfg, self.visitor.as_ref(), threads, site_kinds);
        let mut cache = HashMap::new();
        let mut cores_memo = HashMap::new();
        let mut by_core: BTreeMap<(String, String), CoreFailure> = BTreeMap::new();
        let failing = res.sink.failures.len() as u64 + res.sink.site_counts.values().map(|v| v.0).sum::<u64>();
        let mut unlisted = 0usize;
        let mut not_minimised = 0u64;
        let learn = std::env::var("VERIF_LEARN").is_ok();
        let mut golden_hits: BTreeMap<String, u64> = BTreeMap::new();
        let mut learned: Vec<(u64, String, String)> = vec![];
        for f in res.sink.failures.iter() {
            if !learn {
                if let Some(fid_to_finding) = golden {
                    if let Some(finding) = fid_to_finding.get(&f.fid) {
                        // this exact history is listed as failing in exactly this way
                        *golden_hits.entry(finding.clone()).or_insert(0) += 1;
                        continue;
                    }
                }
            }
            // (VERIF_LEARN=1: minimise everything — used when the known-findings list is regenerated)
            if unlisted >= MAX_UNLISTED_CORES && std::env::var("VERIF_LEARN").is_err() {
                // the verdict (violation) is established; do not spend minutes minimising thousands of further failures
                not_minimised += 1;
                continue;
            }
            let core = self.core_of(&f.hist, &f.kind, &mut cache, &mut cores_memo);
            let key = canon_key::<Y>(&core);
            let e = by_core.entry((f.kind.clone(), key.clone())).or_insert_with(|| CoreFailure {
                kind: f.kind.clone(),
                core_key: key,
                core_text: show_hist::<Y>(&core),
                core: core.clone(),
                example: f.clone(),
                example_text: show_hist::<Y>(&f.hist),
                histories: 0,
            });
            if e.histories == 0 && (golden.is_some() || !known.contains(&(e.kind.clone(), e.core_key.clone()))) {
                unlisted += 1;
            }
            if learn {
                learned.push((f.fid, f.kind.clone(), e.core_key.clone()));
            }
            e.histories += 1;
        }
        if not_minimised > 0 {
            eprintln!("  note: {} further failing histories of {} were counted but not minimised (violation already established)", not_minimised, self.cfg.label);
        }
        for (kind, (n, f)) in res.sink.site_counts.iter() {
            by_core.insert((kind.clone(), "*".to_string()), CoreFailure { kind: kind.clone(), core_key: "*".into(), core_text: show_hist::<Y>(&f.hist), core: f.hist.clone(), example: f.clone(), example_text: show_hist::<Y>(&f.hist), histories: *n });
        }
        // samples: a few explored histories written out (first leaf of depth n via scripted walk)
        let mut samples = vec![];
        let mut sched = 0;
        // (guarded: a mutated subject may panic here too; then there simply is no sample)
        let _ = std::panic::catch_unwind(std::panic::AssertUnwindSafe(|| {
            let mut st = Stats::default();
            let mut h = Hist::<Y>::new();
            // deterministic walk: at each depth take the (d*7+3)-th candidate
            for d in 0..self.cfg.n {
                let cmds = Y::expand(&self.cfg.cmds, d);
                let mut cands = vec![];
                let maxa = h.recs.iter().map(|r| r.author + 1).max().unwrap_or(0);
                for a in 0..self.cfg.actors.min(maxa + 1) {
                    let own: Mask = h.recs.iter().enumerate().filter(|(_, r)| r.author == a).fold(0, |m, (j, _)| m | 1 << j);
                    for vis in 0..(1u32 << d) {
                        if vis & own == own && causally_closed(&h.recs, vis) && !h.table[vis as usize].is_empty() {
                            for c in cmds.iter() {
                                cands.push((a, vis, *c));
                            }
                        }
                    }
                }
                let mut placed = false;
                let seed: usize = std::env::var("VERIF_SEED").ok().and_then(|s| s.parse().ok()).unwrap_or(0);
                for off in 0..cands.len() {
                    // a deterministic, seed-dependent walk that varies actor, visibility and command with depth
                    let (a, vis, c) = cands[((d + 1 + seed).wrapping_mul(2654435761) / 7 + (d + seed) * (cmds.len() + 1) + off * 5) % cands.len()];
                    if let Some(op) = Y::gen(&h.recs, &h.table[vis as usize][0].s, self.cfg.actor_of(a), c, d) {
                        h.extend(Rec { author: a, cmd: c, vis, variant: 0, op }, &self.cfg, &mut st);
                        placed = true;
                        break;
                    }
                }
                if !placed {
                    break;
                }
            }
            if h.len() > 0 {
                sched = count_schedules(&h, self.cfg.disc);
                let full = h.full();
                let fin: Vec<String> = h.table[full as usize].iter().map(|e| Y::reads(&e.s)).collect();
                samples.push(serde_json::json!({
                    "system": Y::NAME, "config": self.cfg.label,
                    "history": show_hist::<Y>(&h.abs()),
                    "ops": h.recs.iter().map(|r| Y::op_debug(&r.op)).collect::<Vec<_>>(),
                    "knowledge_sets_explored": h.table.iter().filter(|t| !t.is_empty()).count(),
                    "complete_delivery_schedules": sched,
                    "reads_at_full_knowledge": fin,
                    "one_derivation": h.derivation(full, 0),
                }));
            }
                }));
        JobOutcome {
            label: self.cfg.label.clone(),
            system: Y::NAME,
            cfg: self.cfg.clone(),
            stats: res.stats,
            cores: by_core.into_values().collect(),
            failing_histories: failing,
            failure_events: res.sink.total,
            overflow: res.overflow,
            samples,
            schedules_sample: sched,
            wall_s: t0.elapsed().as_secs_f64(),
            golden_hits,
            learned,
            sig_key: family_key(&self.cfg.label),
            golden_used: golden.is_some() && !learn,
        }
    }
    fn replay(&self, abs: &[Abs]) -> (String, Vec<Failure>) {
        let mut v = self.visitor.fresh();
        let mut sink = Sink::default();
        let mut st = Stats::default();
        let mut txt = String::new();
        match rebuild::<Y>(abs, &self.cfg, Some((v.as_mut(), &mut sink)), &mut st) {
            None => txt.push_str("history could not be rebuilt (a command is not applicable)\n"),
            Some(h) => {
                txt.push_str(&format!("system {} config {}\n", Y::NAME, self.cfg.label));
                for (i, r) in h.recs.iter().enumerate() {
                    txt.push_str(&format!("  op{}: actor {} {}  saw {:?}  => {}\n", i, self.cfg.actor_of(r.author), Y::cmd_name(r.cmd), (0..i).filter(|j| r.vis >> j & 1 == 1).collect::<Vec<_>>(), Y::op_debug(&r.op)));
                }
                for m in 0..(h.table.len() as Mask) {
                    for (i, e) in h.table[m as usize].iter().enumerate() {
                        txt.push_str(&format!("  K={:?} #{} via {}: reads {}\n", (0..h.len()).filter(|j| m >> j & 1 == 1).collect::<Vec<_>>(), i, h.derivation(m, i), Y::reads(&e.s)));
                    }
                }
            }
        }
        for f in sink.failures.iter() {
            txt.push_str(&format!("FAIL kind={} at knowledge {:b}\n", f.kind, f.mask));
        }
        (txt, sink.failures)
    }
    fn signature(&self, abs: &[Abs]) -> (String, String) {
        let key = family_key(&self.cfg.label);
        let mut v = self.visitor.fresh();
        let mut sink = Sink::default();
        let mut st = Stats::default();
        let mut txt = String::new();
        if let Some(h) = rebuild::<Y>(abs, &self.cfg, Some((v.as_mut(), &mut sink)), &mut st) {
            for m in 0..(h.table.len() as Mask) {
                let ents = &h.table[m as usize];
                if ents.is_empty() {
                    continue;
                }
                let reads: std::collections::BTreeSet<String> = ents
                    .iter()
                    .map(|e| std::panic::catch_unwind(std::panic::AssertUnwindSafe(|| Y::reads(&e.s))).unwrap_or_else(|_| "panic".into()))
                    .collect();
                txt.push_str(&format!("{:x}:{}:{};", m, ents.len(), reads.len()));
            }
        } else {
            txt.push_str("unbuildable;");
        }
        let mut fs: Vec<String> = sink.failures.iter().map(|f| format!("{}@{:x}", f.kind, f.mask)).collect();
        fs.sort();
        txt.push_str(&fs.join(","));
        let mut hsh: u64 = 0xcbf29ce484222325;
        for b in txt.bytes() {
            hsh ^= b as u64;
            hsh = hsh.wrapping_mul(0x100000001b3);
        }
        (key, format!("{:016x}", hsh))
    }
    fn rust_test(&self, abs: &[Abs], mask: Mask, kind: &str, detail: &str) -> Option<String> {
        let mut st = Stats::default();
        let h = rebuild::<Y>(abs, &self.cfg, None, &mut st)?;
        if h.len() != abs.len() || (mask as usize) >= h.table.len() {
            return None;
        }
        let cfg = self.cfg.clone();
        h.rust_test(mask, kind, detail, &move |a| cfg.actor_of(a))
    }
}
