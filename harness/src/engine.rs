//! Knowledge-lattice explorer (DESIGN.md §3.1-3.3).
//!
//! An abstract history is a list of `(author, command, vis, variant)`; the concrete op of every entry is
//! produced by running the real crate API on a state the author could be in.  For one history the explorer
//! computes, for every knowledge set `K` admitted by the delivery discipline, all `==`-distinct
//! implementation states a replica can be in after learning exactly `K` (by op delivery and, optionally,
//! by state merges).  Every transition executes the real `apply` / `merge`.

use std::collections::HashSet;
use std::fmt::Debug;
use std::hash::{Hash, Hasher};

pub type Mask = u32;

/// A symbolic API call.  `k` is the per-system command kind, `x`/`y` small arguments (key, member, index…).
#[derive(Clone, Copy, PartialEq, Eq, PartialOrd, Ord, Hash, Debug)]
pub struct Cmd {
    pub k: u8,
    pub x: u8,
    pub y: u8,
}
pub const fn cmd(k: u8, x: u8, y: u8) -> Cmd {
    Cmd { k, x, y }
}

/// Renaming class of a command argument (used only to canonicalise failing histories).
#[derive(Clone, Copy, PartialEq, Eq, Debug)]
pub enum Class {
    None,
    Key,
    Member,
}

#[derive(Clone, Copy, PartialEq, Eq, Debug)]
pub enum Disc {
    /// an op is deliverable once everything its author had applied is delivered
    Causal,
    /// an op is deliverable once all earlier ops of the same author are delivered
    Fifo,
    /// no ordering assumption at all
    Any,
}

/// One entry of an abstract history (the replay format).
#[derive(Clone, Copy, PartialEq, Eq, PartialOrd, Ord, Hash, Debug)]
pub struct Abs {
    pub author: u8,
    pub cmd: Cmd,
    pub vis: Mask,
    /// index among the distinct ops the command yields from the author-reachable states (0 unless the
    /// type already diverged at `vis`)
    pub variant: u8,
}

pub trait Sys: Sized + 'static {
    type S: Clone + PartialEq + Debug + Send + Sync;
    type O: Clone + Debug + Send + Sync;
    const NAME: &'static str;
    const HAS_MERGE: bool = true;
    /// the visibility-form model is meaningful on every knowledge set, not only causally closed ones
    const VIS_ANY_K: bool = false;

    fn init() -> Self::S;
    /// Produce the op for `c` at a replica in state `s` through the public API; `None` when the command
    /// is not applicable in that state.  `idx` is the op's index in the history (used for unique values).
    fn gen(h: &[Rec<Self>], s: &Self::S, actor: u8, c: Cmd, idx: usize) -> Option<Self::O>;
    fn apply(s: &mut Self::S, o: &Self::O);
    fn merge(_s: &mut Self::S, _o: &Self::S) {
        unimplemented!("{} has no merge", Self::NAME)
    }
    /// All observable reads (content at every level + the top-level contexts), canonical.
    fn reads(s: &Self::S) -> String;
    /// Value-level content only (what the reference model predicts), canonical.
    fn content(s: &Self::S) -> String {
        Self::reads(s)
    }
    fn cmd_name(c: Cmd) -> String;
    fn classes(_c: Cmd) -> (Class, Class) {
        (Class::None, Class::None)
    }
    /// Expand the configured alphabet for the op at index `i` (MerkleReg: child sets depend on `i`).
    fn expand(cmds: &[Cmd], _i: usize) -> Vec<Cmd> {
        cmds.to_vec()
    }
    fn op_debug(o: &Self::O) -> String {
        format!("{:?}", o)
    }

    // ---- reference model of the content (C04/C05/C06/C11/C12/C15); same format as `content`
    fn spec(_recs: &[Rec<Self>], _m: Mask, _form: Form) -> Option<String> {
        None
    }
    // ---- context oracle (C07): discrepancies between the contexts of every read entry point and the model
    fn ctx_check(_recs: &[Rec<Self>], _m: Mask, _s: &Self::S, _actors: u8) -> Vec<String> {
        vec![]
    }
    // ---- validate_op (C16)
    fn validate_op(_s: &Self::S, _o: &Self::O) -> Result<(), String> {
        Ok(())
    }
    /// What `validate_op(op j)` must answer at a replica with knowledge `m`.
    fn expect_valid(_recs: &[Rec<Self>], _m: Mask, _j: usize) -> Expect {
        Expect::Accept
    }
    // ---- validate_merge (C17)
    fn validate_merge(_a: &Self::S, _b: &Self::S) -> Result<(), String> {
        Ok(())
    }
    /// Oracle from public reads: is some dot/marker the current witness of different elements in a and b?
    fn double_spent(_a: &Self::S, _b: &Self::S) -> bool {
        false
    }
    /// site of a validate_merge rejection under correct use (suffix of the failure kind)
    fn merge_reject_site(_recs: &[Rec<Self>], _a: &Self::S, _b: &Self::S) -> &'static str {
        ""
    }
    /// where the double spend sits (suffix of the failure kind; "" = top level)
    fn double_spent_site(_a: &Self::S, _b: &Self::S) -> &'static str {
        ""
    }
    // ---- reset_remove (C18)
    fn reset_remove(_s: &mut Self::S, _c: &crdts::VClock<u8>) {
        unimplemented!()
    }
    /// Canonical view of everything reset_remove talks about: (top clock, elements with witness clocks,
    /// pending removes).  The oracle transforms this view and compares.
    fn rr_view(_s: &Self::S) -> RrView {
        unimplemented!()
    }
    // ---- serde (C19)
    fn to_json(_s: &Self::S) -> Result<String, String> {
        unimplemented!()
    }
    fn from_json(_j: &str) -> Result<Self::S, String> {
        unimplemented!()
    }
    /// serialise + deserialise an op; returns the restored op
    fn op_roundtrip(_o: &Self::O) -> Result<Self::O, String> {
        unimplemented!()
    }
    // ---- residue (C20)
    /// number of pending removes at any nesting depth (hook)
    fn pending(_s: &Self::S) -> usize {
        0
    }
    /// residue a fully-informed replica must not keep (pending removes, empty witnesses …)
    fn residue(_s: &Self::S) -> Vec<String> {
        vec![]
    }
    /// the state rebuilt from the replica clock and the surviving elements with their witnesses
    fn canonical_rebuild(_s: &Self::S) -> Option<Self::S> {
        None
    }
    /// Everything observable plus the bookkeeping the hook exposes, *except* hidden per-value write
    /// contexts; `None` when the type has no such hidden part.  Used to classify `==` differences.
    fn observable_view(_s: &Self::S) -> Option<String> {
        None
    }
    // ---- stand-alone replay (a plain Rust test that needs no explorer); "" = not available
    /// the Rust type of the state, e.g. "Orswot<u8, u8>"
    fn rust_type() -> &'static str {
        ""
    }
    /// expression that builds the op for `c` from a replica bound to the variable `s`
    fn rust_gen(_c: Cmd, _actor: u8, _idx: usize) -> String {
        String::new()
    }
    /// body of `fn reads(s: &S) -> String`
    fn rust_reads() -> &'static str {
        "format!(\"{:?}\", s)"
    }
    /// is op `j` a remove-like op (used by C20: "a remove and everything it observed have arrived")
    fn is_remove(_c: Cmd) -> bool {
        false
    }
}

#[derive(Clone, Copy, PartialEq, Eq, Debug)]
pub enum Form {
    /// pure-history (visibility) form, valid on causally closed knowledge sets
    Vis,
    /// dot-coverage form using the concrete contexts of the generated ops, valid on every knowledge set
    Cov,
}

#[derive(Clone, Copy, PartialEq, Eq, Debug)]
pub enum Expect {
    Accept,
    Reject,
    /// the property does not determine the answer
    Either,
}

/// (top clock, elements: (name, witness clock, nested view), pending removes: (context, element names))
#[derive(Clone, PartialEq, Eq, Debug, PartialOrd, Ord)]
pub struct RrView {
    pub clock: Vec<(u8, u64)>,
    pub elems: Vec<(String, Vec<(u8, u64)>, Option<Box<RrView>>)>,
    pub pending: Vec<(Vec<(u8, u64)>, Vec<String>)>,
}

pub struct Rec<Y: Sys> {
    pub author: u8,
    pub cmd: Cmd,
    pub vis: Mask,
    pub variant: u8,
    pub op: Y::O,
}
impl<Y: Sys> Clone for Rec<Y> {
    fn clone(&self) -> Self {
        Rec { author: self.author, cmd: self.cmd, vis: self.vis, variant: self.variant, op: self.op.clone() }
    }
}
impl<Y: Sys> Rec<Y> {
    pub fn abs(&self) -> Abs {
        Abs { author: self.author, cmd: self.cmd, vis: self.vis, variant: self.variant }
    }
}

#[derive(Clone, Copy, Debug, PartialEq, Eq)]
pub enum How {
    Init,
    Apply { op: u8, from: (Mask, u16) },
    Merge { a: (Mask, u16), b: (Mask, u16) },
}

pub struct Ent<S> {
    pub s: S,
    pub how: How,
    /// reachable by op deliveries alone (no merge anywhere in some derivation)
    pub pure_ops: bool,
}

#[derive(Clone, Debug)]
pub struct Cfg {
    pub label: String,
    pub n: usize,
    pub actors: u8,
    pub disc: Disc,
    pub merge: bool,
    pub cmds: Vec<Cmd>,
    /// enumerate authors in first-appearance order only (actor-permutation symmetry)
    pub sym: bool,
    /// replica -> actor id (empty = identity).  Only the C17 misuse runs host one actor id on two replicas.
    pub actor_map: Vec<u8>,
}
impl Cfg {
    pub fn actor_of(&self, replica: u8) -> u8 {
        self.actor_map.get(replica as usize).copied().unwrap_or(replica)
    }
}

#[derive(Default, Clone, Debug)]
pub struct Stats {
    pub histories: u64,
    pub knowledge_sets: u64,
    pub states: u64,
    pub applies: u64,
    pub merges: u64,
    pub aux_transitions: u64,
    pub gens: u64,
    pub outcomes: HashSet<u64>,
    pub max_states_per_k: usize,
    pub conflicts: u64,
    pub pending_states: u64,
    pub checks: u64,
    /// complete op-delivery schedules (maximal paths through the lattice) the explored histories stand for
    pub schedules: u64,
}
impl Stats {
    pub fn absorb(&mut self, o: &Stats) {
        self.histories += o.histories;
        self.knowledge_sets += o.knowledge_sets;
        self.states += o.states;
        self.applies += o.applies;
        self.merges += o.merges;
        self.aux_transitions += o.aux_transitions;
        self.gens += o.gens;
        self.outcomes.extend(o.outcomes.iter().copied());
        self.max_states_per_k = self.max_states_per_k.max(o.max_states_per_k);
        self.conflicts += o.conflicts;
        self.pending_states += o.pending_states;
        self.checks += o.checks;
        self.schedules = self.schedules.saturating_add(o.schedules);
    }
    pub fn transitions(&self) -> u64 {
        self.applies + self.merges + self.aux_transitions
    }
    pub fn outcome(&mut self, s: &str) {
        let mut h = std::collections::hash_map::DefaultHasher::new();
        s.hash(&mut h);
        self.outcomes.insert(h.finish());
    }
}

pub const MAX_STATES_PER_K: usize = 64;

pub struct Hist<Y: Sys> {
    pub recs: Vec<Rec<Y>>,
    pub table: Vec<Vec<Ent<Y::S>>>,
    pub overflow: bool,
}

pub fn causally_closed<Y: Sys>(recs: &[Rec<Y>], m: Mask) -> bool {
    recs.iter().enumerate().all(|(i, r)| m >> i & 1 == 0 || r.vis & !m == 0)
}
pub fn fifo_closed<Y: Sys>(recs: &[Rec<Y>], m: Mask) -> bool {
    for (i, r) in recs.iter().enumerate() {
        if m >> i & 1 == 1 {
            for (j, r2) in recs.iter().enumerate().take(i) {
                if r2.author == r.author && m >> j & 1 == 0 {
                    return false;
                }
            }
        }
    }
    true
}
pub fn admitted<Y: Sys>(recs: &[Rec<Y>], m: Mask, d: Disc) -> bool {
    match d {
        Disc::Causal => causally_closed(recs, m),
        Disc::Fifo => fifo_closed(recs, m),
        Disc::Any => true,
    }
}

impl<Y: Sys> Hist<Y> {
    pub fn new() -> Self {
        Hist { recs: vec![], table: vec![vec![Ent { s: Y::init(), how: How::Init, pure_ops: true }]], overflow: false }
    }
    pub fn len(&self) -> usize {
        self.recs.len()
    }
    pub fn abs(&self) -> Vec<Abs> {
        self.recs.iter().map(|r| r.abs()).collect()
    }
    pub fn full(&self) -> Mask {
        (1u32 << self.recs.len()) - 1
    }
    /// masks that contain the newest op
    pub fn new_masks(&self) -> std::ops::Range<Mask> {
        let i = self.recs.len();
        if i == 0 {
            0..1
        } else {
            (1 << (i - 1))..(1 << i)
        }
    }
    pub fn ops_of(&self, m: Mask) -> impl Iterator<Item = (usize, &Rec<Y>)> {
        self.recs.iter().enumerate().filter(move |(i, _)| m >> i & 1 == 1)
    }

    fn push_dedup(ents: &mut Vec<Ent<Y::S>>, s: Y::S, how: How, pure_ops: bool) -> bool {
        for e in ents.iter_mut() {
            if e.s == s {
                if pure_ops && !e.pure_ops {
                    e.pure_ops = true;
                    e.how = how;
                }
                return true;
            }
        }
        if ents.len() >= MAX_STATES_PER_K {
            return false;
        }
        ents.push(Ent { s, how, pure_ops });
        true
    }

    pub fn extend(&mut self, rec: Rec<Y>, cfg: &Cfg, st: &mut Stats) {
        let i = self.recs.len();
        self.recs.push(rec);
        let base: usize = 1 << i;
        self.table.resize_with(2 * base, Vec::new);
        for m in base..2 * base {
            let mask = m as Mask;
            if !admitted(&self.recs, mask, cfg.disc) {
                continue;
            }
            let mut ents: Vec<Ent<Y::S>> = vec![];
            for j in 0..=i {
                if mask >> j & 1 == 0 {
                    continue;
                }
                let prev = mask & !(1 << j);
                let ok = match cfg.disc {
                    Disc::Causal => self.recs[j].vis & !prev == 0,
                    Disc::Fifo => true, // prev admitted (non-empty table) + mask admitted => j is last of its author
                    Disc::Any => true,
                };
                if !ok {
                    continue;
                }
                for (idx, e) in self.table[prev as usize].iter().enumerate() {
                    let mut s2 = e.s.clone();
                    Y::apply(&mut s2, &self.recs[j].op);
                    st.applies += 1;
                    if !Self::push_dedup(&mut ents, s2, How::Apply { op: j as u8, from: (prev, idx as u16) }, e.pure_ops) {
                        self.overflow = true;
                    }
                }
            }
            if cfg.merge && Y::HAS_MERGE {
                // all ordered pairs (m1, m2) of proper subsets with m1 | m2 == mask
                let mut m1 = (mask - 1) & mask;
                while m1 != 0 {
                    if !self.table[m1 as usize].is_empty() {
                        let rest = mask & !m1;
                        // m2 = rest | sub, sub ⊆ m1 (sub == m1 would make m2 == mask: excluded)
                        let mut sub = m1;
                        loop {
                            sub = (sub.wrapping_sub(1)) & m1;
                            let m2 = rest | sub;
                            if m2 != mask && !self.table[m2 as usize].is_empty() {
                                for (i1, e1) in self.table[m1 as usize].iter().enumerate() {
                                    for (i2, e2) in self.table[m2 as usize].iter().enumerate() {
                                        let mut s = e1.s.clone();
                                        Y::merge(&mut s, &e2.s);
                                        st.merges += 1;
                                        if !Self::push_dedup(&mut ents, s, How::Merge { a: (m1, i1 as u16), b: (m2, i2 as u16) }, false) {
                                            self.overflow = true;
                                        }
                                    }
                                }
                            }
                            if sub == 0 {
                                break;
                            }
                        }
                    }
                    m1 = (m1 - 1) & mask;
                }
            }
            if cfg.merge && Y::HAS_MERGE && !ents.is_empty() {
                // stale and self merges: a state of this knowledge set merged with (or into) any reachable
                // state whose knowledge is a subset.  On a correct subject these produce nothing new; what
                // they do produce is part of S(K) and is seen by every oracle.  Iterated to a fixpoint.
                let mut start = 0;
                loop {
                    let end = ents.len();
                    if start == end {
                        break;
                    }
                    let mut fresh: Vec<(Y::S, How)> = vec![];
                    for i1 in start..end {
                        let mut m2 = mask;
                        loop {
                            let n2 = if m2 == mask { end } else { self.table[m2 as usize].len() };
                            for i2 in 0..n2 {
                                let other = if m2 == mask { &ents[i2].s } else { &self.table[m2 as usize][i2].s };
                                let mut a = ents[i1].s.clone();
                                Y::merge(&mut a, other);
                                st.merges += 1;
                                if a != ents[i1].s {
                                    fresh.push((a, How::Merge { a: (mask, i1 as u16), b: (m2, i2 as u16) }));
                                }
                                if m2 != mask {
                                    let mut b = other.clone();
                                    Y::merge(&mut b, &ents[i1].s);
                                    st.merges += 1;
                                    if b != ents[i1].s {
                                        fresh.push((b, How::Merge { a: (m2, i2 as u16), b: (mask, i1 as u16) }));
                                    }
                                }
                            }
                            if m2 == 0 {
                                break;
                            }
                            m2 = (m2 - 1) & mask;
                        }
                    }
                    start = end;
                    for (s2, how) in fresh {
                        if !Self::push_dedup(&mut ents, s2, how, false) {
                            self.overflow = true;
                        }
                    }
                }
            }
            if !ents.is_empty() {
                st.knowledge_sets += 1;
                st.states += ents.len() as u64;
                st.pending_states += ents.iter().filter(|e| Y::pending(&e.s) > 0).count() as u64;
                st.max_states_per_k = st.max_states_per_k.max(ents.len());
            }
            self.table[m] = ents;
        }
    }

    pub fn retract(&mut self) {
        let i = self.recs.len() - 1;
        self.recs.pop();
        self.table.truncate(1 << i);
    }

    /// Rust expression (a block) that rebuilds table entry `(m, idx)` from the ops `op0..`.
    pub fn derivation_code(&self, m: Mask, idx: usize) -> String {
        match self.table[m as usize][idx].how {
            How::Init => "S::default()".to_string(),
            How::Apply { op, from } => format!("{{ let mut r = {}; r.apply(op{}.clone()); r }}", self.derivation_code(from.0, from.1 as usize), op),
            How::Merge { a, b } => format!("{{ let mut r = {}; r.merge({}); r }}", self.derivation_code(a.0, a.1 as usize), self.derivation_code(b.0, b.1 as usize)),
        }
    }
    /// A stand-alone test that regenerates the ops through the API and rebuilds every state of the
    /// knowledge set `m`; `None` when the system does not provide the code fragments.
    pub fn rust_test(&self, m: Mask, kind: &str, detail: &str, actor_of: &dyn Fn(u8) -> u8) -> Option<String> {
        if Y::rust_type().is_empty() {
            return None;
        }
        let mut t = String::new();
        t.push_str("// Stand-alone replay without the explorer: put this file under tests/ of a crate that depends on `crdts`\n");
        t.push_str("// (or under examples/ with `fn main() { replay() }`) and run it.\n");
        t.push_str("#![allow(unused_imports, unused_mut)]\nuse crdts::*;\nuse crdts::ctx::*;\nuse std::collections::*;\n");
        t.push_str(&format!("type S = {};\nfn reads(s: &S) -> String {{ {} }}\n\n#[test]\nfn replay() {{\n", Y::rust_type(), Y::rust_reads()));
        for (i, r) in self.recs.iter().enumerate() {
            let seen: Vec<usize> = (0..i).filter(|j| r.vis >> j & 1 == 1).collect();
            t.push_str(&format!("    // op{}: actor {} at a replica that had applied {:?}\n", i, actor_of(r.author), seen));
            t.push_str(&format!("    let op{} = {{ let mut s = S::default(); ", i));
            for j in seen {
                t.push_str(&format!("s.apply(op{}.clone()); ", j));
            }
            t.push_str(&format!("{} }};\n", Y::rust_gen(r.cmd, actor_of(r.author), i)));
        }
        t.push_str(&format!("    // every way the explorer found to learn exactly the ops {:?}\n", (0..self.recs.len()).filter(|j| m >> j & 1 == 1).collect::<Vec<_>>()));
        let n = self.table[m as usize].len();
        for i in 0..n {
            t.push_str(&format!("    let x{}: S = {};\n    println!(\"x{}: {{}}\", reads(&x{}));\n", i, self.derivation_code(m, i), i, i));
        }
        if n > 1 && (kind.contains("divergence") || kind.contains("differs") || kind.starts_with("state-neq")) {
            for i in 1..n {
                t.push_str(&format!("    assert_eq!(reads(&x0), reads(&x{}), \"replicas with equal knowledge read differently\");\n", i));
            }
        }
        t.push_str(&format!("    // reported: {} - {}\n}}\n", kind, detail.replace('\n', " ")));
        Some(t)
    }

    /// Human-readable derivation (the schedule) of table entry `(m, idx)`.
    pub fn derivation(&self, m: Mask, idx: usize) -> String {
        match self.table[m as usize][idx].how {
            How::Init => "new()".to_string(),
            How::Apply { op, from } => format!("{}.apply(op{})", self.derivation(from.0, from.1 as usize), op),
            How::Merge { a, b } => format!("merge[{} <- {}]", self.derivation(a.0, a.1 as usize), self.derivation(b.0, b.1 as usize)),
        }
    }
}

/// A check evaluated after every extension of the history.
pub trait Visitor<Y: Sys>: Send + Sync {
    fn visit(&mut self, h: &Hist<Y>, cfg: &Cfg, st: &mut Stats, sink: &mut Sink);
    fn fresh(&self) -> Box<dyn Visitor<Y>>;
}

#[derive(Clone, Debug)]
pub struct Failure {
    pub kind: String,
    pub hist: Vec<Abs>,
    pub mask: Mask,
    pub detail: String,
    /// identity of this failing history for the golden failing-set: hash of (history, kind, knowledge set,
    /// number of ==-distinct states at that knowledge set)
    pub fid: u64,
}
pub fn failure_id(hist: &[Abs], kind: &str, mask: Mask, nstates: usize) -> u64 {
    let mut h: u64 = 0xcbf29ce484222325;
    let mut eat = |b: u64| {
        for i in 0..8 {
            h ^= (b >> (8 * i)) & 0xff;
            h = h.wrapping_mul(0x100000001b3);
        }
    };
    for a in hist {
        eat(a.author as u64 | (a.cmd.k as u64) << 8 | (a.cmd.x as u64) << 16 | (a.cmd.y as u64) << 24 | (a.variant as u64) << 32);
        eat(a.vis as u64);
    }
    for b in kind.bytes() {
        eat(b as u64);
    }
    eat(mask as u64);
    eat(nstates as u64);
    h
}

#[derive(Default)]
pub struct Sink {
    pub failures: Vec<Failure>,
    seen: HashSet<(Vec<Abs>, String)>,
    pub total: u64,
    /// kinds classified by a site predicate (known finding with core "*"): counted, one example kept
    pub site_kinds: HashSet<String>,
    pub site_counts: std::collections::BTreeMap<String, (u64, Failure)>,
}
impl Sink {
    pub fn with_sites(site_kinds: &HashSet<String>) -> Sink {
        Sink { site_kinds: site_kinds.clone(), ..Default::default() }
    }
    pub fn fail<Y: Sys>(&mut self, h: &Hist<Y>, kind: &str, mask: Mask, detail: impl FnOnce() -> String) {
        self.total += 1;
        if self.site_kinds.contains(kind) {
            match self.site_counts.get_mut(kind) {
                Some(e) => e.0 += 1,
                None => {
                    self.site_counts.insert(kind.to_string(), (1, Failure { kind: kind.to_string(), hist: h.abs(), mask, detail: detail(), fid: 0 }));
                }
            }
            return;
        }
        let key = (h.abs(), kind.to_string());
        if self.seen.contains(&key) {
            return;
        }
        self.seen.insert(key);
        let abs = h.abs();
        let nstates = h.table.get(mask as usize).map_or(0, |t| t.len());
        let fid = failure_id(&abs, kind, mask, nstates);
        self.failures.push(Failure { kind: kind.to_string(), hist: abs, mask, detail: detail(), fid });
    }
    pub fn absorb(&mut self, o: Sink) {
        self.total += o.total;
        for (k, (n, f)) in o.site_counts {
            match self.site_counts.get_mut(&k) {
                Some(e) => {
                    e.0 += n;
                    if (f.hist.len(), &f.hist) < (e.1.hist.len(), &e.1.hist) {
                        e.1 = f;
                    }
                }
                None => {
                    self.site_counts.insert(k, (n, f));
                }
            }
        }
        for f in o.failures {
            let key = (f.hist.clone(), f.kind.clone());
            if self.seen.insert(key) {
                self.failures.push(f);
            }
        }
    }
}

/// Candidate (author, vis) pairs for the next op.
fn author_choices<Y: Sys>(h: &Hist<Y>, cfg: &Cfg) -> Vec<(u8, Mask)> {
    let i = h.len();
    let maxa = h.recs.iter().map(|r| r.author + 1).max().unwrap_or(0);
    let na = if cfg.sym { cfg.actors.min(maxa + 1) } else { cfg.actors };
    let mut out = vec![];
    for a in 0..na {
        let own: Mask = h.recs.iter().enumerate().filter(|(_, r)| r.author == a).fold(0, |m, (j, _)| m | 1 << j);
        for vis in 0..(1u32 << i) {
            if vis & own != own || !causally_closed(&h.recs, vis) {
                continue;
            }
            if h.table[vis as usize].is_empty() {
                continue;
            }
            out.push((a, vis));
        }
    }
    out
}

/// Distinct ops a command yields from the author-reachable states `S(vis)`.
fn gen_variants<Y: Sys>(h: &Hist<Y>, cfg: &Cfg, a: u8, c: Cmd, vis: Mask, st: &mut Stats) -> Vec<Y::O> {
    let mut ops: Vec<(String, Y::O)> = vec![];
    for e in h.table[vis as usize].iter() {
        st.gens += 1;
        if let Some(op) = Y::gen(&h.recs, &e.s, cfg.actor_of(a), c, h.len()) {
            let d = format!("{:?}", op);
            if !ops.iter().any(|(d2, _)| *d2 == d) {
                ops.push((d, op));
            }
        }
    }
    ops.into_iter().map(|(_, o)| o).collect()
}

thread_local! {
    pub static LAST_PANIC: std::cell::RefCell<String> = std::cell::RefCell::new(String::new());
}
/// Install a quiet panic hook: subject panics are verdicts (reported with their message), not noise.
pub fn install_panic_hook() {
    std::panic::set_hook(Box::new(|info| {
        let msg = format!("{}", info);
        LAST_PANIC.with(|p| *p.borrow_mut() = msg);
    }));
}
fn panic_kind() -> (String, String) {
    let msg = LAST_PANIC.with(|p| p.borrow().clone());
    let loc = msg.split_whitespace().find(|w| w.contains(".rs:")).unwrap_or("?").trim_end_matches(':').to_string();
    // strip line:col so the kind survives unrelated edits of the file
    let file = loc.split(':').next().unwrap_or("?").rsplit('/').next().unwrap_or("?").to_string();
    (format!("panic-{}", file), msg)
}

fn explore_rec<Y: Sys>(h: &mut Hist<Y>, cfg: &Cfg, v: &mut dyn Visitor<Y>, st: &mut Stats, sink: &mut Sink, stop_at: usize, leaves: &mut Vec<Vec<Abs>>) {
    let i = h.len();
    if i == stop_at {
        if stop_at < cfg.n {
            leaves.push(h.abs());
        }
        return;
    }
    let cmds = Y::expand(&cfg.cmds, i);
    for (a, vis) in author_choices(h, cfg) {
        for &c in cmds.iter() {
            let ops = match std::panic::catch_unwind(std::panic::AssertUnwindSafe(|| gen_variants(h, cfg, a, c, vis, st))) {
                Ok(o) => o,
                Err(_) => {
                    let (kind, msg) = panic_kind();
                    sink.fail(h, &kind, vis, || format!("generating {} for actor {} at K={:b} panicked: {}", Y::cmd_name(c), a, vis, msg));
                    continue;
                }
            };
            for (variant, op) in ops.into_iter().enumerate() {
                let r = std::panic::catch_unwind(std::panic::AssertUnwindSafe(|| {
                    h.extend(Rec { author: a, cmd: c, vis, variant: variant as u8, op: op.clone() }, cfg, st);
                    st.histories += 1;
                    st.schedules = st.schedules.saturating_add(count_schedules(h, cfg.disc));
                    if vis != (1u32 << i) - 1 {
                        st.conflicts += 1; // the new op is concurrent with some earlier op
                    }
                    v.visit(h, cfg, st, sink);
                    explore_rec(h, cfg, v, st, sink, stop_at, leaves);
                    h.retract();
                }));
                if r.is_err() {
                    // a subject call (apply / merge / == / read / oracle transition) panicked: that is a verdict
                    // for the history being extended; restore the explorer and go on with the next candidate
                    if h.recs.len() <= i {
                        h.recs.push(Rec { author: a, cmd: c, vis, variant: variant as u8, op: op.clone() });
                    }
                    h.recs.truncate(i + 1);
                    h.table.truncate(1 << i);
                    h.table.resize_with(2 << i, Vec::new);
                    let (kind, msg) = panic_kind();
                    sink.fail(h, &kind, 0, || format!("a call into the crate panicked while exploring this history: {}", msg));
                    h.recs.truncate(i);
                    h.table.truncate(1 << i);
                }
            }
        }
    }
}

/// Rebuild a history from its abstract form (scripted run).  Returns None if some command is not
/// applicable.  When `v` is given the checks run at every node.
pub fn rebuild<Y: Sys>(abs: &[Abs], cfg: &Cfg, mut v: Option<(&mut dyn Visitor<Y>, &mut Sink)>, st: &mut Stats) -> Option<Hist<Y>> {
    let mut h = Hist::<Y>::new();
    for (i, a) in abs.iter().enumerate() {
        if a.vis >= (1 << i) || !causally_closed(&h.recs, a.vis) {
            return None;
        }
        let own: Mask = h.recs.iter().enumerate().filter(|(_, r)| r.author == a.author).fold(0, |m, (j, _)| m | 1 << j);
        if a.vis & own != own {
            return None;
        }
        if h.table[a.vis as usize].is_empty() {
            return None;
        }
        let r = std::panic::catch_unwind(std::panic::AssertUnwindSafe(|| {
            let ops = gen_variants(&h, cfg, a.author, a.cmd, a.vis, st);
            let op = match ops.into_iter().nth(a.variant as usize) {
                Some(o) => o,
                None => return false,
            };
            h.extend(Rec { author: a.author, cmd: a.cmd, vis: a.vis, variant: a.variant, op }, cfg, st);
            if let Some((vis, sink)) = v.as_mut() {
                vis.visit(&h, cfg, st, sink);
            }
            true
        }));
        match r {
            Ok(true) => {}
            Ok(false) => return None,
            Err(_) => {
                let (kind, msg) = panic_kind();
                if h.recs.len() <= i {
                    return None;
                }
                h.recs.truncate(i + 1);
                h.table.truncate(1 << i);
                h.table.resize_with(2 << i, Vec::new);
                if let Some((_, sink)) = v.as_mut() {
                    sink.fail(&h, &kind, 0, || format!("a call into the crate panicked while exploring this history: {}", msg));
                }
                return Some(h);
            }
        }
    }
    Some(h)
}

pub struct RunResult {
    pub stats: Stats,
    pub sink: Sink,
    pub overflow: bool,
}

/// Exhaustive enumeration of all histories of `cfg`, in parallel below depth `split`.
pub fn explore<Y: Sys>(cfg: &Cfg, v: &dyn Visitor<Y>, threads: usize, site_kinds: &HashSet<String>) -> RunResult {
    let mut st = Stats::default();
    let mut sink = Sink::with_sites(site_kinds);
    let mut h = Hist::<Y>::new();
    let mut root_v = v.fresh();
    // the empty history is a node too
    st.histories += 1;
    st.knowledge_sets += 1;
    st.states += 1;
    if std::panic::catch_unwind(std::panic::AssertUnwindSafe(|| root_v.visit(&h, cfg, &mut st, &mut sink))).is_err() {
        let (kind, msg) = panic_kind();
        sink.fail(&h, &kind, 0, || format!("a call into the crate panicked on the initial state: {}", msg));
    }
    let split = if cfg.n >= 3 { 2 } else { cfg.n };
    let mut leaves = vec![];
    explore_rec(&mut h, cfg, root_v.as_mut(), &mut st, &mut sink, split.min(cfg.n), &mut leaves);
    let mut overflow = h.overflow;
    if std::env::var("VERIF_DEBUG").is_ok() {
        eprintln!("serial phase: histories={} leaves={}", st.histories, leaves.len());
    }
    if !leaves.is_empty() {
        let next = std::sync::atomic::AtomicUsize::new(0);
        let results: Vec<(Stats, Sink, bool)> = std::thread::scope(|sc| {
            let mut hs = vec![];
            for _ in 0..threads.max(1) {
                let next = &next;
                let leaves = &leaves;
                let mut wv = v.fresh();
                hs.push(sc.spawn(move || {
                    let mut st = Stats::default();
                    let mut sink = Sink::with_sites(site_kinds);
                    let mut ov = false;
                    loop {
                        let k = next.fetch_add(1, std::sync::atomic::Ordering::SeqCst);
                        if k >= leaves.len() {
                            break;
                        }
                        let mut scratch = Stats::default();
                        let mut h = rebuild::<Y>(&leaves[k], cfg, None, &mut scratch).expect("leaf must rebuild");
                        let mut dummy = vec![];
                        explore_rec(&mut h, cfg, wv.as_mut(), &mut st, &mut sink, cfg.n, &mut dummy);
                        ov |= h.overflow;
                    }
                    if std::env::var("VERIF_DEBUG").is_ok() {
                        eprintln!("worker done: histories={} ", st.histories);
                    }
                    (st, sink, ov)
                }));
            }
            hs.into_iter().map(|h| h.join().expect("worker panicked")).collect()
        });
        for (s, k, ov) in results {
            st.absorb(&s);
            sink.absorb(k);
            overflow |= ov;
        }
    }
    sink.failures.sort_by(|a, b| (a.hist.len(), &a.hist, &a.kind).cmp(&(b.hist.len(), &b.hist, &b.kind)));
    RunResult { stats: st, sink, overflow }
}

pub fn show_hist<Y: Sys>(abs: &[Abs]) -> String {
    abs.iter()
        .enumerate()
        .map(|(i, a)| {
            let vis: Vec<usize> = (0..i).filter(|j| a.vis >> j & 1 == 1).collect();
            format!("op{}: actor {} {} saw {:?}{}", i, a.author, Y::cmd_name(a.cmd), vis, if a.variant > 0 { format!(" (variant {})", a.variant) } else { String::new() })
        })
        .collect::<Vec<_>>()
        .join("; ")
}

/// Number of complete delivery schedules (maximal apply-paths) through the admitted lattice of a history.
pub fn count_schedules<Y: Sys>(h: &Hist<Y>, disc: Disc) -> u64 {
    let n = h.len();
    let full = (1u32 << n) - 1;
    let mut ways = vec![0u64; 1 << n];
    ways[0] = 1;
    for m in 1..=full {
        if h.table[m as usize].is_empty() {
            continue;
        }
        let mut w = 0u64;
        for j in 0..n {
            if m >> j & 1 == 0 {
                continue;
            }
            let prev = m & !(1 << j);
            if h.table[prev as usize].is_empty() {
                continue;
            }
            let ok = match disc {
                Disc::Causal => h.recs[j].vis & !prev == 0,
                _ => true,
            };
            if ok {
                w = w.saturating_add(ways[prev as usize]);
            }
        }
        ways[m as usize] = w;
    }
    ways[full as usize]
}
